// overlaygen builds the `go build -overlay` file used by every check.
//
// It regenerates, from the CURRENT working tree of the repository, copies of the
// repository's non-test Go files that differ from the originals only by
//   - import substitution (zk, sqlx, os/signal, os, sync -> shims under internal/verif/...)
//   - map-range determinisation (range over map -> range over vmap.Keys(m))
//   - one targeted expression rewrite in internal/dcs/zk.go (os.Getpid() -> per-instance pid)
//
// and mounts the engine packages (/verif/engine/*) as virtual packages
// github.com/yandex/mysync/internal/verif/* and the drivers (/verif/drivers/*) as in-package
// files. Nothing in /repo is touched.
package main

import (
	"bytes"
	"encoding/json"
	"flag"
	"fmt"
	"go/ast"
	"go/importer"
	"go/parser"
	"go/token"
	"go/types"
	"io"
	"os"
	"os/exec"
	"path/filepath"
	"sort"
	"strings"
)

const modPath = "github.com/yandex/mysync"
const verifPrefix = modPath + "/internal/verif/"

type listPkg struct {
	ImportPath string
	Export     string
	Dir        string
	GoFiles    []string
	Standard   bool
}

type edit struct {
	start, end int
	text       string
}

var (
	repo   = flag.String("repo", "/repo", "repository root")
	verif  = flag.String("verif", "/verif", "verif root")
	out    = flag.String("out", "/verif/.build/gen", "output dir for rewritten copies")
	ovFile = flag.String("overlay", "/verif/.build/overlay.json", "overlay file to write")
	race   = flag.Bool("race", false, "free-running race build: keep real sync primitives")
	noMap  = flag.Bool("nomaprewrite", false, "disable map-range rewrite (differential self-check)")
	quiet  = flag.Bool("q", false, "quiet")
)

func die(f string, a ...any) {
	fmt.Fprintf(os.Stderr, "overlaygen: "+f+"\n", a...)
	os.Exit(2)
}

func main() {
	flag.Parse()
	pkgs := goList()
	exports := map[string]string{}
	for _, p := range pkgs {
		if p.Export != "" {
			exports[p.ImportPath] = p.Export
		}
	}
	fset := token.NewFileSet()
	imp := importer.ForCompiler(fset, "gc", func(path string) (io.ReadCloser, error) {
		f, ok := exports[path]
		if !ok {
			return nil, fmt.Errorf("no export data for %s", path)
		}
		return os.Open(f)
	})
	overlay := map[string]string{}
	_ = os.RemoveAll(*out)
	nRange, nFiles := 0, 0
	for _, p := range pkgs {
		if p.Standard || !strings.HasPrefix(p.ImportPath, modPath+"/") {
			continue
		}
		rel, err := filepath.Rel(*repo, p.Dir)
		if err != nil || strings.HasPrefix(rel, "..") {
			continue
		}
		if !(strings.HasPrefix(rel, "internal/") || strings.HasPrefix(rel, "cmd/")) {
			continue
		}
		if strings.HasPrefix(rel, "internal/verif") {
			continue
		}
		n, r := processPkg(fset, imp, p, rel, overlay)
		nFiles += n
		nRange += r
	}
	mountEngine(overlay)
	mountDrivers(overlay)
	data, _ := json.MarshalIndent(map[string]any{"Replace": overlay}, "", " ")
	if err := os.MkdirAll(filepath.Dir(*ovFile), 0o755); err != nil {
		die("%v", err)
	}
	if err := os.WriteFile(*ovFile, data, 0o644); err != nil {
		die("%v", err)
	}
	if !*quiet {
		fmt.Printf("overlaygen: %d files rewritten, %d map ranges, %d overlay entries\n", nFiles, nRange, len(overlay))
	}
}

func goList() []listPkg {
	cmd := exec.Command("go", "list", "-deps", "-export", "-json=ImportPath,Export,Dir,GoFiles,Standard", "./internal/...", "./cmd/...")
	cmd.Dir = *repo
	cmd.Stderr = os.Stderr
	outb, err := cmd.Output()
	if err != nil {
		die("go list failed: %v", err)
	}
	dec := json.NewDecoder(bytes.NewReader(outb))
	var res []listPkg
	for dec.More() {
		var p listPkg
		if err := dec.Decode(&p); err != nil {
			die("decode go list: %v", err)
		}
		res = append(res, p)
	}
	return res
}

// import substitutions: returns new path or "".
func substitute(relDir, file, imp string) string {
	switch imp {
	case "github.com/go-zookeeper/zk":
		if relDir == "internal/dcs" {
			return verifPrefix + "zk"
		}
	case "github.com/jmoiron/sqlx":
		if relDir == "internal/mysql" {
			return verifPrefix + "sqlx"
		}
	case "os/signal":
		return verifPrefix + "vsignal"
	case "sync":
		if !*race {
			return verifPrefix + "vsync"
		}
	case "os":
		key := relDir + "/" + file
		switch key {
		case "internal/dcs/zk.go", "internal/app/app_files.go", "internal/mysql/node.go", "internal/app/app_background.go":
			return verifPrefix + "vos"
		}
	}
	return ""
}

var defaultNames = map[string]string{
	"github.com/go-zookeeper/zk": "zk",
	"github.com/jmoiron/sqlx":    "sqlx",
	"os/signal":                  "signal",
	"sync":                       "sync",
	"os":                         "os",
}

func processPkg(fset *token.FileSet, imp types.Importer, p listPkg, rel string, overlay map[string]string) (int, int) {
	var files []*ast.File
	var srcs [][]byte
	for _, name := range p.GoFiles {
		path := filepath.Join(p.Dir, name)
		src, err := os.ReadFile(path)
		if err != nil {
			die("%v", err)
		}
		f, err := parser.ParseFile(fset, path, src, parser.ParseComments)
		if err != nil {
			die("parse %s: %v", path, err)
		}
		files = append(files, f)
		srcs = append(srcs, src)
	}
	info := &types.Info{Types: map[ast.Expr]types.TypeAndValue{}}
	conf := types.Config{Importer: imp, Error: func(err error) {}}
	_, _ = conf.Check(p.ImportPath, fset, files, info)

	nFiles, nRange := 0, 0
	for i, f := range files {
		nSelect := 0
		_ = nSelect
		name := p.GoFiles[i]
		src := srcs[i]
		var edits []edit
		// 1. imports
		for _, is := range f.Imports {
			ipath := strings.Trim(is.Path.Value, "\"")
			np := substitute(rel, name, ipath)
			if np == "" {
				continue
			}
			start := fset.Position(is.Path.Pos()).Offset
			end := fset.Position(is.Path.End()).Offset
			text := "\"" + np + "\""
			if is.Name == nil {
				text = defaultNames[ipath] + " " + text
			}
			edits = append(edits, edit{start, end, text})
		}
		// 2. targeted rewrite in zk.go
		if rel == "internal/dcs" && name == "zk.go" {
			needle := []byte("os.Getpid()")
			if bytes.Count(src, needle) != 1 {
				die("internal/dcs/zk.go: expected exactly one os.Getpid(), found %d", bytes.Count(src, needle))
			}
			at := bytes.Index(src, needle)
			edits = append(edits, edit{at, at + len(needle), "os.GetpidOf(z.config.Hosts)"})
		}
		// 3. map ranges
		needVmap := false
		if !*noMap {
			ast.Inspect(f, func(n ast.Node) bool {
				rs, ok := n.(*ast.RangeStmt)
				if !ok {
					return true
				}
				tv, ok := info.Types[rs.X]
				if !ok || tv.Type == nil {
					return true
				}
				if _, isMap := tv.Type.Underlying().(*types.Map); !isMap {
					return true
				}
				if !pureExpr(rs.X) {
					die("%s: range over impure map expression", fset.Position(rs.Pos()))
				}
				hdrStart := fset.Position(rs.For).Offset
				hdrEnd := fset.Position(rs.Body.Lbrace).Offset + 1
				xs := string(src[fset.Position(rs.X.Pos()).Offset:fset.Position(rs.X.End()).Offset])
				ks, vs := "", ""
				if rs.Key != nil {
					ks = string(src[fset.Position(rs.Key.Pos()).Offset:fset.Position(rs.Key.End()).Offset])
				}
				if rs.Value != nil {
					vs = string(src[fset.Position(rs.Value.Pos()).Offset:fset.Position(rs.Value.End()).Offset])
				}
				define := rs.Tok == token.DEFINE
				var b strings.Builder
				kv := "vmapK__"
				if ks != "" && ks != "_" && define {
					kv = ks
				}
				fmt.Fprintf(&b, "for _, %s := range vmap.Keys(%s) {", kv, xs)
				if ks != "" && ks != "_" && !define {
					fmt.Fprintf(&b, " %s = %s;", ks, kv)
				}
				if vs != "" && vs != "_" {
					if define {
						fmt.Fprintf(&b, " %s, vmapOK__ := (%s)[%s]; if !vmapOK__ { continue };", vs, xs, kv)
					} else {
						fmt.Fprintf(&b, " vmapV__, vmapOK__ := (%s)[%s]; if !vmapOK__ { continue }; %s = vmapV__;", xs, kv, vs)
					}
				} else {
					fmt.Fprintf(&b, " if _, vmapOK__ := (%s)[%s]; !vmapOK__ { continue };", xs, kv)
				}
				if kv == "vmapK__" {
					b.WriteString(" _ = vmapK__;")
				}
				old := src[hdrStart:hdrEnd]
				b.WriteString(strings.Repeat("\n", bytes.Count(old, []byte("\n"))))
				edits = append(edits, edit{hdrStart, hdrEnd, b.String()})
				needVmap = true
				nRange++
				return true
			})
		}
		// 4. select determinisation: a select without default whose cases are all receives is
		// preceded by non-blocking attempts in source order, so that when several cases are ready
		// at entry (exact coincidences are the rule under virtual time) the choice is the first in
		// source order instead of Go's uniformly random pick - a legal refinement of select.
		ast.Inspect(f, func(n ast.Node) bool {
			sel, ok := n.(*ast.SelectStmt)
			if !ok {
				return true
			}
			var clauses []*ast.CommClause
			for _, st := range sel.Body.List {
				cc := st.(*ast.CommClause)
				if cc.Comm == nil {
					return true // has default: never blocks, no random tie-break of interest
				}
				switch c := cc.Comm.(type) {
				case *ast.ExprStmt:
					if u, ok := c.X.(*ast.UnaryExpr); !ok || u.Op != token.ARROW {
						return true
					}
				case *ast.AssignStmt:
					if u, ok := c.Rhs[0].(*ast.UnaryExpr); !ok || u.Op != token.ARROW {
						return true
					}
				default:
					return true // send case: leave alone
				}
				clauses = append(clauses, cc)
			}
			if len(clauses) < 2 {
				return true
			}
			selPos := fset.Position(sel.Pos())
			lineStart := selPos.Offset
			for lineStart > 0 && src[lineStart-1] != '\n' {
				lineStart--
			}
			if strings.TrimSpace(string(src[lineStart:selPos.Offset])) != "" {
				die("%s: select is not the first token on its line", selPos)
			}
			var b strings.Builder
			for i, cc := range clauses {
				start := fset.Position(cc.Pos()).Offset
				var end int
				if i+1 < len(clauses) {
					end = fset.Position(clauses[i+1].Pos()).Offset
				} else {
					end = fset.Position(sel.Body.Rbrace).Offset
				}
				b.WriteString("select {\n")
				b.Write(src[start:end])
				b.WriteString("\ndefault:\n")
			}
			fmt.Fprintf(&b, "//line %s:%d\n", selPos.Filename, selPos.Line)
			edits = append(edits, edit{lineStart, lineStart, b.String()})
			rb := fset.Position(sel.Body.Rbrace).Offset + 1
			edits = append(edits, edit{rb, rb, strings.Repeat("}", len(clauses))})
			nSelect++
			return true
		})
		if needVmap {
			// append the import to the package clause line (no line moves)
			end := fset.Position(f.Name.End()).Offset
			edits = append(edits, edit{end, end, "; import vmap \"" + verifPrefix + "vmap\""})
		}
		if len(edits) == 0 {
			continue
		}
		sort.Slice(edits, func(a, b int) bool { return edits[a].start > edits[b].start })
		res := append([]byte(nil), src...)
		for _, e := range edits {
			res = append(res[:e.start], append([]byte(e.text), res[e.end:]...)...)
		}
		dst := filepath.Join(*out, rel, name)
		if err := os.MkdirAll(filepath.Dir(dst), 0o755); err != nil {
			die("%v", err)
		}
		if err := os.WriteFile(dst, res, 0o644); err != nil {
			die("%v", err)
		}
		overlay[filepath.Join(p.Dir, name)] = dst
		nFiles++
	}
	return nFiles, nRange
}

func pureExpr(e ast.Expr) bool {
	switch x := e.(type) {
	case *ast.Ident:
		return true
	case *ast.SelectorExpr:
		return pureExpr(x.X)
	case *ast.StarExpr:
		return pureExpr(x.X)
	case *ast.ParenExpr:
		return pureExpr(x.X)
	case *ast.IndexExpr:
		return pureExpr(x.X) && pureExpr(x.Index)
	case *ast.BasicLit:
		return true
	}
	return false
}

func mountEngine(overlay map[string]string) {
	root := filepath.Join(*verif, "engine")
	ents, err := os.ReadDir(root)
	if err != nil {
		die("%v", err)
	}
	for _, d := range ents {
		if !d.IsDir() {
			continue
		}
		files, _ := filepath.Glob(filepath.Join(root, d.Name(), "*.go"))
		for _, f := range files {
			base := filepath.Base(f)
			if *race && strings.HasSuffix(base, "_norace.go") {
				continue
			}
			if !*race && strings.HasSuffix(base, "_race.go") {
				continue
			}
			overlay[filepath.Join(*repo, "internal", "verif", d.Name(), base)] = f
		}
	}
}

var driverTargets = map[string]string{
	"app":   "internal/app",
	"dcs":   "internal/dcs",
	"gtids": "internal/mysql/gtids",
	"mysql": "internal/mysql",
	"opt":   "internal/app/optimization",
}

func mountDrivers(overlay map[string]string) {
	for d, target := range driverTargets {
		files, _ := filepath.Glob(filepath.Join(*verif, "drivers", d, "*.go"))
		for _, f := range files {
			overlay[filepath.Join(*repo, target, "zz_verif_"+filepath.Base(f))] = f
		}
	}
}
