module verif/overlay

go 1.25.6
