// Package emu provides the mutex the environment fakes use for their own state.
//
// Free-running race build (this file): a spin lock on a raw atomic. The engine packages are
// compiled WITHOUT race instrumentation in that build (-gcflags <engine>=-race=false), so neither
// this lock nor the fakes' memory is visible to the race detector: a call into the fake MySQL or
// ZooKeeper creates no happens-before edge between the mysync goroutines that make it - exactly
// like a network round trip - and two loops of one process that touch the same memory without
// their own synchronisation are reported whatever the timing was.
package emu

import (
	"runtime"
	"sync/atomic"
)

type Mutex struct{ v int32 }

func (m *Mutex) Lock() {
	for !atomic.CompareAndSwapInt32(&m.v, 0, 1) {
		runtime.Gosched()
	}
}

func (m *Mutex) Unlock() { atomic.StoreInt32(&m.v, 0) }
