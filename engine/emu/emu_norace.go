// Package emu provides the mutex the environment fakes use for their own state.
//
// Cooperative build (this file): the ordinary sync.Mutex.
package emu

import "sync"

type Mutex = sync.Mutex
