// Package zk offers the subset of github.com/go-zookeeper/zk that internal/dcs uses, backed by
// the fake ensemble in sim. Session/event semantics are transcribed from go-zookeeper v1.0.4.
package zk

import (
	"net"
	"time"

	"github.com/yandex/mysync/internal/verif/sim"
)

type (
	Event     = sim.ZKEvent
	EventType = sim.ZKEventType
	State     = sim.ZKState
	Stat      = sim.ZKStat
)

const (
	EventSession = sim.EventSession

	StateUnknown      = sim.StateUnknown
	StateDisconnected = sim.StateDisconnected
	StateConnecting   = sim.StateConnecting
	StateConnected    = sim.StateConnected
	StateHasSession   = sim.StateHasSession
	StateExpired      = sim.StateExpired

	FlagEphemeral = sim.FlagEphemeral
	FlagSequence  = 2

	PermRead   = 1
	PermWrite  = 2
	PermCreate = 4
	PermDelete = 8
	PermAdmin  = 16
	PermAll    = 0x1f
)

var (
	ErrConnectionClosed        = sim.ErrConnectionClosed
	ErrNoNode                  = sim.ErrNoNode
	ErrNodeExists              = sim.ErrNodeExists
	ErrBadVersion              = sim.ErrBadVersion
	ErrNotEmpty                = sim.ErrNotEmpty
	ErrNoChildrenForEphemerals = sim.ErrNoChildrenForEphemerals
	ErrNoServer                = sim.ErrNoServer
	ErrSessionExpired          = sim.ErrSessionExpired
	ErrClosing                 = sim.ErrClosing
	ErrBadArguments            = sim.ErrBadArguments
	ErrNoAuth                  = sim.ErrNoAuth
	ErrInvalidPath             = sim.ErrInvalidPath
)

type ACL struct {
	Perms  int32
	Scheme string
	ID     string
}

func WorldACL(perms int32) []ACL { return []ACL{{perms, "world", "anyone"}} }

func DigestACL(perms int32, user, password string) []ACL {
	return []ACL{{perms, "digest", user + ":<digest>"}}
}

func AuthACL(perms int32) []ACL { return []ACL{{perms, "auth", ""}} }

type Logger interface {
	Printf(string, ...interface{})
}

type Dialer func(network, address string, timeout time.Duration) (net.Conn, error)

type HostProvider interface {
	Init(servers []string) error
	Len() int
	Next() (server string, retryStart bool)
	Connected()
}

type connOption func(c *Conn)

func WithLogger(logger Logger) connOption            { return func(c *Conn) {} }
func WithDialer(dialer Dialer) connOption            { return func(c *Conn) {} }
func WithHostProvider(hp HostProvider) connOption    { return func(c *Conn) {} }
func WithLogInfo(logInfo bool) connOption            { return func(c *Conn) {} }
func WithMaxBufferSize(maxBufferSize int) connOption { return func(c *Conn) {} }

// Conn is a client handle.
type Conn struct {
	c *sim.ZKClient
}

// Connect creates a client for the virtual process named by servers[0].
func Connect(servers []string, sessionTimeout time.Duration, options ...connOption) (*Conn, <-chan Event, error) {
	if len(servers) == 0 {
		return nil, nil, sim.ErrBadArguments
	}
	c := sim.Cur.ZKConnect(servers[0], sessionTimeout)
	return &Conn{c: c}, c.Events, nil
}

func (c *Conn) Sim() *sim.ZKClient { return c.c }

func (c *Conn) AddAuth(scheme string, auth []byte) error { return nil }

func (c *Conn) Close() { c.c.Close() }

func (c *Conn) SessionID() int64 { return c.c.Session }

func (c *Conn) State() State {
	if c.c.Connected {
		return StateHasSession
	}
	return StateDisconnected
}

func (c *Conn) Get(path string) ([]byte, *Stat, error) {
	r := c.c.Request("get", path, nil, 0, 0)
	return r.Data, r.Stat, r.Err
}

func (c *Conn) Children(path string) ([]string, *Stat, error) {
	r := c.c.Request("children", path, nil, 0, 0)
	return r.Children, r.Stat, r.Err
}

func (c *Conn) Set(path string, data []byte, version int32) (*Stat, error) {
	r := c.c.Request("set", path, data, version, 0)
	return r.Stat, r.Err
}

func (c *Conn) Create(path string, data []byte, flags int32, acl []ACL) (string, error) {
	r := c.c.Request("create", path, data, 0, flags)
	return r.Path, r.Err
}

func (c *Conn) Delete(path string, version int32) error {
	r := c.c.Request("delete", path, nil, version, 0)
	return r.Err
}

func (c *Conn) Exists(path string) (bool, *Stat, error) {
	r := c.c.Request("get", path, nil, 0, 0)
	if r.Err == ErrNoNode {
		return false, nil, nil
	}
	return r.Err == nil, r.Stat, r.Err
}
