// Package vsignal replaces os/signal: several virtual mysync processes share one OS process,
// so "SIGTERM to instance X" is delivered by the harness to the channels X registered.
package vsignal

import (
	"os"
	"sync"
	"syscall"
)

type reg struct {
	proc string
	c    chan<- os.Signal
	sigs []os.Signal
}

var (
	mu      sync.Mutex
	regs    []reg
	current string
)

// SetCurrent names the virtual process on whose behalf Notify calls are being made.
func SetCurrent(proc string) {
	mu.Lock()
	current = proc
	mu.Unlock()
}

func Notify(c chan<- os.Signal, sig ...os.Signal) {
	mu.Lock()
	regs = append(regs, reg{current, c, sig})
	mu.Unlock()
}

func Stop(c chan<- os.Signal) {
	mu.Lock()
	for i := range regs {
		if regs[i].c == c {
			regs = append(regs[:i], regs[i+1:]...)
			break
		}
	}
	mu.Unlock()
}

func Ignore(sig ...os.Signal) {}
func Reset(sig ...os.Signal)  {}

// Deliver sends SIGTERM to every channel registered by proc ("" = all).
func Deliver(proc string) int {
	mu.Lock()
	defer mu.Unlock()
	n := 0
	for _, r := range regs {
		if proc != "" && r.proc != proc {
			continue
		}
		want := len(r.sigs) == 0
		for _, s := range r.sigs {
			if s == syscall.SIGTERM {
				want = true
			}
		}
		if !want {
			continue
		}
		select {
		case r.c <- syscall.SIGTERM:
			n++
		default:
		}
	}
	return n
}

// ResetAll forgets every registration (between executions).
func ResetAll() {
	mu.Lock()
	regs = nil
	current = ""
	mu.Unlock()
}
