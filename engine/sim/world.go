// Package sim is the deterministic world the real mysync code runs in: fake MySQL servers,
// a fake ZooKeeper ensemble, a network matrix, an in-memory file system, a client workload,
// and the gate scheduler through which every external call of every mysync instance passes.
// It is mounted by the overlay as github.com/yandex/mysync/internal/verif/sim.
package sim

import (
	"context"
	"database/sql/driver"
	"fmt"
	"github.com/yandex/mysync/internal/verif/emu"
	"net"
	"os"
	"runtime"
	"runtime/debug"
	"sort"
	"strings"
	"syscall"
	"testing/synctest"
	"time"

	"github.com/yandex/mysync/internal/verif/vsignal"
)

// FailLatency is the virtual time every failing call costs (refused connection, injected error,
// call of a crashed process). Loops that retry a failing call without sleeping terminate by
// their deadline instead of spinning at a frozen clock.
const FailLatency = 50 * time.Millisecond

// Cur is the world of the execution in progress (one execution at a time per OS process).
var Cur *World

type Proc struct {
	ID      string // e.g. "h1.1": host + incarnation, or "cli.3"
	Host    string
	Pid     int
	Crashed bool
	ZK      []*ZKClient
	OpenDB  int // sql.DB handles opened - closed
	OpenZK  int
}

type World struct {
	mu emu.Mutex // real mutex: guards pending/hung/registries touched by non-scheduler goroutines

	// Free: free-running mode (race pass only). A call is executed at once by the calling goroutine
	// under freeMu; nothing is parked, no scheduler decides, no deviation is injected.
	Free   bool
	freeMu emu.Mutex

	EnvHook func(arg int) // see DevEnv

	Servers map[string]*Server
	ZK      *ZKServer
	Procs   map[string]*Proc
	VFS     map[string][]byte
	cut     map[[2]string]bool // unordered pairs of hosts that cannot reach each other
	nextPid int

	pending []*Call
	hung    []*Call // parked until their context expires
	blocked []*Call // SQL statements blocked inside the server (SET read_only behind waiters)
	seq     int
	wake    chan struct{}

	// exploration
	Plan        map[int]Deviation
	Policy      int // 0 FIFO, 1 LIFO
	Trace       []Point
	MaxSteps    int
	Steps       int
	Aborted     string // non-empty: execution aborted (livelock budget)
	Panics      []string
	PanicStacks []string

	// observation
	OnApply  []func(*Applied)
	StmtLog  []string
	LogStmts bool
	Ledger   []*Txn
	Unknown  []string // unknown statements / engine errors
	Counters map[string]int
	// OnIdle is called by the scheduler when nothing is parked and virtual time is about to pass
	// (at most once per IdleEvery of virtual time): background dynamics such as replication progress
	Chooser             func(pend []*Call) int
	OnIdle              func()
	IdleEvery           time.Duration
	lastIdle            time.Duration
	lastChanged         bool
	ZKBlockDisconnected bool // requests of a disconnected client park instead of failing with ErrNoServer
	ZKAutoExpire        bool // cut sessions expire by themselves after the session timeout (daemon mode)
}

// NewWorld creates an empty world. Must be called inside the bubble.
func NewWorld() *World {
	w := &World{
		Servers:  map[string]*Server{},
		Procs:    map[string]*Proc{},
		VFS:      map[string][]byte{},
		cut:      map[[2]string]bool{},
		wake:     make(chan struct{}, 1),
		Plan:     map[int]Deviation{},
		MaxSteps: 200000,
		Counters: map[string]int{},
		nextPid:  1000,
	}
	w.ZK = newZKServer(w)
	Cur = w
	return w
}

func (w *World) AddProc(id, host string) *Proc {
	w.mu.Lock()
	defer w.mu.Unlock()
	w.nextPid++
	p := &Proc{ID: id, Host: host, Pid: w.nextPid}
	w.Procs[id] = p
	return p
}

func (w *World) Proc(id string) *Proc {
	w.mu.Lock()
	defer w.mu.Unlock()
	return w.Procs[id]
}

func (w *World) PidOf(id string) int {
	if p := w.Proc(id); p != nil {
		return p.Pid
	}
	return 1
}

func pair(a, b string) [2]string {
	if a > b {
		a, b = b, a
	}
	return [2]string{a, b}
}

// SetCut makes hosts a and b (un)reachable from each other. Pseudo hosts: "zk", "client".
func (w *World) SetCut(a, b string, cut bool) {
	if cut {
		w.cut[pair(a, b)] = true
	} else {
		delete(w.cut, pair(a, b))
	}
}

func (w *World) Reach(a, b string) bool {
	if a == b {
		return true
	}
	return !w.cut[pair(a, b)]
}

// ---------------------------------------------------------------------------------------------
// Calls, gates, deviations

type DevKind int

const (
	DevNone        DevKind = iota
	DevErr                 // the call fails without effect (flavour in Arg)
	DevLost                // the effect is applied, the caller gets an error
	DevHang                // SQL: the call parks until the caller's deadline
	DevCrashBefore         // the calling mysync process dies just before the call
	DevCrashAfter          // ... just after the call took effect
	DevTargetDownBefore
	DevTargetDownAfter
	DevPreempt // run the Arg-th other pending call (in arrival order) instead
	DevZKLoss  // the calling process loses the coordination service just before this call
	DevEnv     // an environment action of the driver (World.EnvHook(Arg)) happens just before this call
)

var devNames = map[DevKind]string{DevNone: "none", DevErr: "err", DevLost: "lost-reply", DevHang: "hang",
	DevCrashBefore: "crash-before", DevCrashAfter: "crash-after", DevTargetDownBefore: "target-down-before",
	DevTargetDownAfter: "target-down-after", DevPreempt: "preempt", DevZKLoss: "zk-loss", DevEnv: "env-action"}

func (k DevKind) String() string { return devNames[k] }

type Deviation struct {
	At   int     `json:"at"`
	Kind DevKind `json:"kind"`
	Arg  int     `json:"arg,omitempty"`
}

func (d Deviation) String() string { return fmt.Sprintf("%s/%d@%d", d.Kind, d.Arg, d.At) }

// Point is one decision point of an execution: a call that was granted.
type Point struct {
	Idx      int
	Proc     string
	Kind     string // sql | zk
	Target   string // host or znode path
	Op       string
	Mut      bool
	NPending int
	Fails    bool // would fail anyway (target down, client disconnected)
	Dev      DevKind
	T        time.Duration
}

func (p Point) String() string {
	return fmt.Sprintf("#%d %s %s %s %s", p.Idx, p.Proc, p.Kind, p.Target, p.Op)
}

// Call is one external call parked at its gate.
type Call struct {
	Proc   string
	Kind   string
	Target string
	Op     string
	Mut    bool
	SQL    string
	Args   []driver.NamedValue
	ZKReq  *ZKRequest
	Ctx    context.Context

	seq   int
	gid   uint64 // hash of the call stack: breaks ties between calls with the same identity
	key   string
	reply chan Reply
}

// callSite hashes the call stack of the calling goroutine. Two parked calls with the same
// identity (process, target, operation) but issued from different code paths (say the manager
// loop and the optimisation syncer goroutine) get a canonical relative order from it; calls
// that agree in call stack as well are symmetric and their order is immaterial. Program counters
// are stable for one binary, so the order is the same in every run of that binary. (A goroutine
// id would do too but runtime.Stack costs tens of microseconds per call.)
func callSite() uint64 {
	var pcs [14]uintptr
	n := runtime.Callers(3, pcs[:])
	h := uint64(1469598103934665603)
	for _, pc := range pcs[:n] {
		h = (h ^ uint64(pc)) * 1099511628211
	}
	return h
}

type Reply struct {
	Err   error
	Rows  *RowSet
	ZK    ZKReply
	Delay time.Duration
}

type RowSet struct {
	Cols []string
	Rows [][]driver.Value
}

// Applied describes a call as it was answered, for monitors.
type Applied struct {
	Point   Point
	Call    *Call
	Effect  bool // the call's effect was applied to the world
	Changed bool // SQL: the server's state differs from before the statement
	Err     error
	W       *World
}

var t0 time.Time

func (w *World) Now() time.Duration {
	if t0.IsZero() {
		t0 = time.Date(2000, 1, 1, 0, 0, 0, 0, time.UTC)
	}
	return time.Since(t0)
}

// Gate parks the calling goroutine until the scheduler answers the call.
func (w *World) Gate(c *Call) Reply {
	c.reply = make(chan Reply, 1)
	if w.Free {
		w.freeMu.Lock()
		pt := Point{Idx: len(w.Trace), Proc: c.Proc, Kind: c.Kind, Target: c.Target, Op: c.Op, Mut: c.Mut, T: w.Now()}
		if p := w.Procs[c.Proc]; p != nil && p.Crashed {
			c.reply <- Reply{Err: fmt.Errorf("process %s is dead", c.Proc), Delay: FailLatency, ZK: ZKReply{Err: ErrConnectionClosed}}
		} else {
			w.execute(c, &pt, Deviation{})
		}
		w.freeMu.Unlock()
		var done <-chan struct{}
		if c.Ctx != nil {
			done = c.Ctx.Done()
		}
		select {
		case r := <-c.reply:
			if r.Delay > 0 {
				time.Sleep(r.Delay)
			}
			return r
		case <-done: // a call the fake parked (blocked / hung) ends at the caller's deadline
			return Reply{Err: c.Ctx.Err()}
		}
	}
	c.gid = callSite()
	c.key = c.Proc + "|" + c.Target + "|" + c.Kind + "|" + c.Op
	w.mu.Lock()
	c.seq = w.seq
	w.seq++
	w.pending = append(w.pending, c)
	w.mu.Unlock()
	select {
	case w.wake <- struct{}{}:
	default:
	}
	var done <-chan struct{}
	if c.Ctx != nil {
		done = c.Ctx.Done()
	}
	select {
	case r := <-c.reply:
		if r.Delay > 0 {
			time.Sleep(r.Delay)
		}
		return r
	case <-done:
		w.mu.Lock()
		w.pending = removeCall(w.pending, c)
		w.hung = removeCall(w.hung, c)
		w.blocked = removeCall(w.blocked, c)
		w.mu.Unlock()
		// a reply may have been sent concurrently; prefer it
		select {
		case r := <-c.reply:
			return r
		default:
		}
		return Reply{Err: c.Ctx.Err()}
	}
}

func removeCall(l []*Call, c *Call) []*Call {
	for i, x := range l {
		if x == c {
			return append(l[:i:i], l[i+1:]...)
		}
	}
	return l
}

func (w *World) pendingSnapshot() []*Call {
	w.mu.Lock()
	defer w.mu.Unlock()
	// Canonical order of the parked calls. It must not depend on the order in which goroutines
	// woken at the same virtual instant happened to run (the runtime's order among timers with
	// equal deadlines depends on process history): the SET of parked calls after synctest.Wait is
	// independent of it, so order by call identity, then by call-stack hash.
	r := append([]*Call(nil), w.pending...)
	sort.Slice(r, func(i, j int) bool {
		if r[i].key != r[j].key {
			return r[i].key < r[j].key
		}
		return r[i].gid < r[j].gid
	})
	return r
}

func (w *World) takePending(c *Call) {
	w.mu.Lock()
	w.pending = removeCall(w.pending, c)
	w.mu.Unlock()
}

// NPending reports parked calls (diagnostics).
func (w *World) NPending() int {
	w.mu.Lock()
	defer w.mu.Unlock()
	return len(w.pending)
}

// RunUntil is the scheduler loop: it grants parked calls one at a time, each only after every
// other goroutine of the bubble is durably blocked, until done is closed and nothing is parked.
func (w *World) RunUntil(done <-chan struct{}) {
	for {
		synctest.Wait()
		if w.decideOne() {
			continue
		}
		select {
		case <-done:
			synctest.Wait()
			if w.NPending() == 0 {
				return
			}
			continue
		default:
		}
		if w.OnIdle != nil && w.Now()-w.lastIdle >= w.IdleEvery {
			w.lastIdle = w.Now()
			w.OnIdle()
		}
		select {
		case <-done:
		case <-w.wake:
		}
	}
}

// Yield is a pure scheduling point of proc (a place where the driver lets the environment or
// other processes move, e.g. between two API calls of a client script).
func (w *World) Yield(proc, label string) {
	w.Gate(&Call{Proc: proc, Kind: "yield", Target: "@", Op: label})
}

// Step runs fn as a handler of process proc (panics are recorded) and schedules until it returns.
func (w *World) Step(proc string, fn func()) {
	done := make(chan struct{})
	vsignal.SetCurrent(proc)
	go func() {
		defer close(done)
		defer func() {
			if r := recover(); r != nil {
				w.mu.Lock()
				w.Panics = append(w.Panics, fmt.Sprintf("%s: %v", proc, r))
				w.PanicStacks = append(w.PanicStacks, string(debug.Stack()))
				w.mu.Unlock()
			}
		}()
		fn()
	}()
	w.RunUntil(done)
}

// Advance lets d of virtual time pass, scheduling every call that arrives meanwhile.
func (w *World) Advance(d time.Duration) {
	done := make(chan struct{})
	tm := time.AfterFunc(d, func() { close(done) })
	defer tm.Stop()
	w.RunUntil(done)
}

// Settle waits until every goroutine is blocked and grants what is parked, without letting time pass.
func (w *World) Settle() {
	for {
		synctest.Wait()
		if !w.decideOne() {
			return
		}
	}
}

func (w *World) decideOne() bool {
	pend := w.pendingSnapshot()
	if len(pend) == 0 {
		return false
	}
	w.Steps++
	if w.Steps > w.MaxSteps && w.Aborted == "" {
		w.Aborted = fmt.Sprintf("step budget %d exceeded at %s %s %s", w.MaxSteps, pend[0].Proc, pend[0].Target, pend[0].Op)
		for _, p := range w.Procs {
			p.Crashed = true
		}
		vsignal.Deliver("")
	}
	// zombies first: calls of crashed processes fail without effect and are not decision points
	for _, c := range pend {
		if p := w.Procs[c.Proc]; p != nil && p.Crashed {
			w.takePending(c)
			c.reply <- Reply{Err: fmt.Errorf("process %s is dead", c.Proc), Delay: FailLatency, ZK: ZKReply{Err: ErrConnectionClosed}}
			return true
		}
	}
	c := pend[0]
	if w.Policy == 1 {
		c = pend[len(pend)-1]
	}
	if w.Chooser != nil {
		// full control for interleaving exploration: the driver picks the call to grant, or applies
		// an environment event itself and returns -1 (the parked set is then re-evaluated)
		i := w.Chooser(pend)
		if i < 0 {
			return true
		}
		c = pend[i]
	}
	idx := len(w.Trace)
	dev := w.Plan[idx]
	if dev.Kind == DevPreempt {
		others := make([]*Call, 0, len(pend))
		for _, x := range pend {
			if x != c {
				others = append(others, x)
			}
		}
		if dev.Arg < len(others) {
			c = others[dev.Arg]
		} else {
			dev = Deviation{}
		}
	}
	w.takePending(c)
	pt := Point{Idx: idx, Proc: c.Proc, Kind: c.Kind, Target: c.Target, Op: c.Op, Mut: c.Mut, NPending: len(pend), Dev: dev.Kind, T: w.Now()}
	w.execute(c, &pt, dev)
	return true
}

func (w *World) note(pt *Point, c *Call, effect bool, err error) {
	if w.LogStmts {
		s := c.SQL
		if c.Kind == "zk" {
			s = c.ZKReq.String()
		}
		e := ""
		if err != nil {
			e = " ERR=" + err.Error()
		}
		eff := ""
		if !effect {
			eff = " (no effect)"
		}
		w.StmtLog = append(w.StmtLog, fmt.Sprintf("[%8.3f] #%d %s -> %s: %s%s%s", w.Now().Seconds(), pt.Idx, c.Proc, c.Target, s, eff, e))
	}
	if len(w.OnApply) > 0 {
		a := &Applied{Point: *pt, Call: c, Effect: effect, Err: err, W: w, Changed: w.lastChanged && c.Kind == "sql"}
		w.lastChanged = false
		for _, f := range w.OnApply {
			f(a)
		}
	}
}

// Crash kills a mysync process: from now on its calls fail without effect; its context is
// cancelled; its ZooKeeper sessions stay alive on the server until they expire.
func (w *World) Crash(proc string) {
	p := w.Procs[proc]
	if p == nil || p.Crashed {
		return
	}
	p.Crashed = true
	w.Counters["proc_crash"]++
	for _, zc := range p.ZK {
		zc.die()
	}
	vsignal.Deliver(proc)
	// parked hung/blocked calls of the process are released
	w.mu.Lock()
	var rel []*Call
	for _, l := range [][]*Call{w.hung, w.blocked} {
		for _, c := range l {
			if c.Proc == proc {
				rel = append(rel, c)
			}
		}
	}
	for _, c := range rel {
		w.hung = removeCall(w.hung, c)
		w.blocked = removeCall(w.blocked, c)
	}
	w.mu.Unlock()
	for _, c := range rel {
		c.reply <- Reply{Err: fmt.Errorf("process %s is dead", proc), Delay: FailLatency}
	}
}

func (w *World) execute(c *Call, pt *Point, dev Deviation) {
	defer func() { w.Trace = append(w.Trace, *pt) }()
	switch dev.Kind {
	case DevCrashBefore:
		w.note(pt, c, false, fmt.Errorf("crash-before"))
		w.Crash(c.Proc)
		c.reply <- Reply{Err: fmt.Errorf("process %s is dead", c.Proc), Delay: FailLatency, ZK: ZKReply{Err: ErrConnectionClosed}}
		return
	case DevTargetDownBefore:
		if dev.Arg > 0 {
			// Arg-th server (sorted by name) dies, whatever the call's target
			var hs []string
			for h := range w.Servers {
				hs = append(hs, h)
			}
			sort.Strings(hs)
			if dev.Arg-1 < len(hs) {
				w.Servers[hs[dev.Arg-1]].Crash(w)
			}
		} else if c.Kind == "sql" {
			if s := w.Servers[c.Target]; s != nil {
				s.Crash(w)
			}
		}
	case DevZKLoss:
		w.SetCut(w.hostOf(c.Proc), "zk", true)
		w.ZK.SyncLinks()
	case DevEnv:
		// something else in the world moves between two calls of the process (another initiator
		// writes the tree, an operator edits a server); the call itself then proceeds normally
		if w.EnvHook != nil {
			w.EnvHook(dev.Arg)
		}
	}
	switch c.Kind {
	case "sql":
		w.executeSQL(c, pt, dev)
	case "yield":
		c.reply <- Reply{}
	default:
		w.executeZK(c, pt, dev)
	}
	switch dev.Kind {
	case DevCrashAfter:
		w.Crash(c.Proc)
	case DevTargetDownAfter:
		if c.Kind == "sql" {
			if s := w.Servers[c.Target]; s != nil {
				s.Crash(w)
			}
		}
	}
}

func (w *World) hostOf(proc string) string {
	if p := w.Procs[proc]; p != nil {
		return p.Host
	}
	return proc
}

func (w *World) executeSQL(c *Call, pt *Point, dev Deviation) {
	s := w.Servers[c.Target]
	from := w.hostOf(c.Proc)
	if s == nil {
		// unregistered / unknown host: name does not resolve
		pt.Fails = true
		err := fmt.Errorf("dial tcp: lookup %s: no such host", c.Target)
		w.Counters["sql_unknown_host"]++
		w.note(pt, c, false, err)
		c.reply <- Reply{Err: err, Delay: FailLatency}
		return
	}
	s.StmtCount++
	if !w.Reach(from, c.Target) || s.Hung && s.Up {
		pt.Fails = true
		w.note(pt, c, false, fmt.Errorf("unreachable: hangs"))
		w.park(c)
		return
	}
	if !s.Up {
		pt.Fails = true
		err := refusedErr(c.Target)
		w.note(pt, c, false, err)
		c.reply <- Reply{Err: err, Delay: FailLatency}
		return
	}
	if s.Dubious && from != c.Target {
		pt.Fails = true
		err := mysqlErr(1040, "Too many connections")
		w.note(pt, c, false, err)
		c.reply <- Reply{Err: err, Delay: FailLatency}
		return
	}
	switch dev.Kind {
	case DevErr:
		err := sqlErrFlavour(dev.Arg)
		w.note(pt, c, false, err)
		c.reply <- Reply{Err: err, Delay: FailLatency}
		return
	case DevHang:
		w.note(pt, c, false, fmt.Errorf("hang"))
		w.park(c)
		return
	}
	var before string
	if c.Mut && len(w.OnApply) > 0 {
		before = s.Dump(w)
	}
	rows, err, block := s.Exec(w, c)
	w.lastChanged = c.Mut && len(w.OnApply) > 0 && before != s.Dump(w)
	if block {
		w.note(pt, c, false, fmt.Errorf("blocked in server"))
		w.mu.Lock()
		w.blocked = append(w.blocked, c)
		w.mu.Unlock()
		return
	}
	w.note(pt, c, err == nil, err)
	if dev.Kind == DevLost && err == nil {
		c.reply <- Reply{Err: fmt.Errorf("injected: connection lost after the statement was sent"), Delay: FailLatency}
	} else if err != nil {
		c.reply <- Reply{Err: err, Delay: FailLatency}
	} else {
		c.reply <- Reply{Rows: rows}
	}
	w.recheckBlocked()
}

func (w *World) park(c *Call) {
	if c.Ctx == nil || c.Ctx.Done() == nil {
		// no deadline: treat as refused after latency (never the case for mysync's SQL calls)
		c.reply <- Reply{Err: &net.OpError{Op: "read", Net: "tcp", Err: os.ErrDeadlineExceeded}, Delay: FailLatency}
		return
	}
	w.mu.Lock()
	w.hung = append(w.hung, c)
	w.mu.Unlock()
}

// recheckBlocked re-evaluates statements blocked inside servers after a state change.
func (w *World) recheckBlocked() {
	for {
		w.mu.Lock()
		bl := append([]*Call(nil), w.blocked...)
		w.mu.Unlock()
		progressed := false
		for _, c := range bl {
			s := w.Servers[c.Target]
			if s == nil || !s.Up {
				w.mu.Lock()
				w.blocked = removeCall(w.blocked, c)
				w.mu.Unlock()
				c.reply <- Reply{Err: fmt.Errorf("server has gone away"), Delay: FailLatency}
				progressed = true
				continue
			}
			if s.blocksReadOnly() {
				continue
			}
			w.mu.Lock()
			w.blocked = removeCall(w.blocked, c)
			w.mu.Unlock()
			rows, err, _ := s.Exec(w, c)
			pt := Point{Idx: -1, Proc: c.Proc, Kind: c.Kind, Target: c.Target, Op: c.Op, Mut: c.Mut, T: w.Now()}
			w.note(&pt, c, err == nil, err)
			c.reply <- Reply{Rows: rows, Err: err}
			progressed = true
		}
		if !progressed {
			return
		}
	}
}

func sqlErrFlavour(arg int) error {
	switch arg {
	case 1:
		return mysqlErr(1040, "Too many connections")
	case 2:
		return mysqlErr(1205, "Lock wait timeout exceeded; try restarting transaction")
	}
	return &net.OpError{Op: "read", Net: "tcp", Err: &os.SyscallError{Syscall: "read", Err: syscall.ECONNRESET}}
}

type hostAddr string

func (a hostAddr) Network() string { return "tcp" }
func (a hostAddr) String() string  { return string(a) }

// refusedErr is what go-sql-driver hands up when the host is there and nothing listens on the port:
// the dialer's *net.OpError (a net.Error that is NOT a timeout) wrapping ECONNREFUSED.
func refusedErr(host string) error {
	return &net.OpError{Op: "dial", Net: "tcp", Addr: hostAddr(host + ":3306"), Err: &os.SyscallError{Syscall: "connect", Err: syscall.ECONNREFUSED}}
}

// ---------------------------------------------------------------------------------------------
// Bubble helpers

// Count increments a named coverage counter.
func (w *World) Count(k string) { w.Counters[k]++ }

// TraceString renders the decision points (for samples and replays).
func (w *World) TraceString() string {
	var b strings.Builder
	for _, p := range w.Trace {
		fmt.Fprintf(&b, "%s\n", p)
	}
	return b.String()
}

// ---------------------------------------------------------------------------------------------
// in-memory files (paths under /vfs/<host>/...)

func (w *World) VFSGet(p string) ([]byte, bool) {
	w.mu.Lock()
	defer w.mu.Unlock()
	d, ok := w.VFS[p]
	return d, ok
}

func (w *World) VFSPut(p string, d []byte) {
	w.mu.Lock()
	w.VFS[p] = append([]byte(nil), d...)
	w.mu.Unlock()
}

func (w *World) VFSDel(p string) bool {
	w.mu.Lock()
	defer w.mu.Unlock()
	_, ok := w.VFS[p]
	delete(w.VFS, p)
	return ok
}

func (w *World) VFSHas(p string) bool {
	_, ok := w.VFSGet(p)
	return ok
}

// Dump renders servers, tree (through filter) and files canonically.
func (w *World) Dump(filter func(path string, data []byte) (string, bool)) string {
	var b strings.Builder
	var hs []string
	for h := range w.Servers {
		hs = append(hs, h)
	}
	sort.Strings(hs)
	for _, h := range hs {
		b.WriteString(w.Servers[h].Dump(w))
		b.WriteByte('\n')
	}
	b.WriteString(w.ZK.Dump(filter))
	if w.ZK.Down {
		b.WriteString("zookeeper ensemble down\n")
	}
	w.mu.Lock()
	var fsn []string
	for p := range w.VFS {
		fsn = append(fsn, p)
	}
	w.mu.Unlock()
	sort.Strings(fsn)
	for _, p := range fsn {
		d, _ := w.VFSGet(p)
		fmt.Fprintf(&b, "file %s = %q\n", p, d)
	}
	var cs []string
	for k := range w.cut {
		cs = append(cs, k[0]+"|"+k[1])
	}
	sort.Strings(cs)
	if len(cs) > 0 {
		fmt.Fprintf(&b, "cut %v\n", cs)
	}
	return b.String()
}

// ---------------------------------------------------------------------------------------------
// SQL entry point used by the sqlx shim

func (w *World) DBOpened(proc string) {
	if w.Free {
		w.freeMu.Lock()
		defer w.freeMu.Unlock()
	}
	w.mu.Lock()
	if p := w.Procs[proc]; p != nil {
		p.OpenDB++
	}
	w.Counters["db_open"]++
	w.mu.Unlock()
}

func (w *World) DBClosed(proc string) {
	if w.Free {
		w.freeMu.Lock()
		defer w.freeMu.Unlock()
	}
	w.mu.Lock()
	if p := w.Procs[proc]; p != nil {
		p.OpenDB--
	}
	w.Counters["db_close"]++
	w.mu.Unlock()
}

// SQLCall gates one statement of proc against the server on host.
func (w *World) SQLCall(ctx context.Context, proc, host, query string, args []driver.NamedValue) Reply {
	q := normSQL(query)
	op, mut := Classify(q)
	if op == "" {
		w.mu.Lock()
		w.Unknown = append(w.Unknown, "unknown SQL statement: "+q)
		w.mu.Unlock()
		op = "UNKNOWN"
	}
	return w.Gate(&Call{Proc: proc, Kind: "sql", Target: host, Op: op, Mut: mut, SQL: q, Args: args, Ctx: ctx})
}
