package sim

import (
	"database/sql/driver"
	"fmt"
	"regexp"
	"sort"
	"strconv"
	"strings"
	"time"

	"github.com/go-sql-driver/mysql"
)

func mysqlErr(n uint16, msg string) error {
	return &mysql.MySQLError{Number: n, Message: msg}
}

// Server is one fake MySQL instance. It recognises exactly the statement shapes mysync issues
// (internal/mysql/queries.go after Mogrify / sqlx processing); anything else is an engine error.
type Server struct {
	Host    string
	UUID    string
	Version [3]int
	Up      bool

	ReadOnly, SuperRO, Offline bool
	Executed                   GSet

	// replication channel ''
	HasSource         bool
	Source            string
	IORunning         bool
	SQLRunning        bool
	IOErrno, SQLErrno int
	IOError, SQLError string
	Retrieved         GSet
	Lag               *float64 // Seconds_Behind_Source when both threads run; nil = 0
	LagFrozen         bool     // lag does not shrink by itself
	SourceLogFile     string
	ReadSourceLogPos  int64
	IOStalled         bool // IO thread runs but fetches nothing (download stalled)
	InjectSQLErrno    int  // next apply fails with this errno (kept: permanent)
	RelayOneAtATime   bool

	// semi-sync
	PluginLoaded      bool
	SSMaster, SSSlave bool
	WaitCount         int
	SSLatched         bool // value of rpl_semi_sync_slave_enabled when the IO thread last started

	// durability settings
	FlushLog   int
	SyncBinlog int

	Binlogs  []Binlog
	Events   []*SrvEvent
	Sessions []*Session
	nextSess int

	StartTime   time.Duration
	ReplMon     bool
	ReplMonTS   float64
	Hung        bool              // accepts connections but never answers: statements hang to the caller\'s deadline
	Dubious     bool              // connections from other hosts are refused with error 1040 (too many connections)
	FailOps     map[string]uint16 // statements of these kinds (Classify op names) fail with the MySQL error number
	StuckSQL    bool              // the SQL thread runs but applies nothing
	FailRO      uint16            // SET read_only/super_read_only statements fail with this MySQL error number
	FailSSQuery bool              // the semi-sync status query fails (connection-level error)
	StmtCount   int
	MutCount    int
	LastMutProc string
}

type Binlog struct {
	Name string
	Size int64
}

type SrvEvent struct {
	Schema, Name, Definer string
	Disabled              bool
}

// Session is a client (workload) connection.
type Session struct {
	ID      int
	Alive   bool
	Long    bool  // runs a long statement that blocks SET read_only until killed
	Waiting *GTID // commit waiting for a semi-sync ACK
	// Excluded: the session's user is in mysync's exclude_users list (not SUPER): invisible to
	// the process-list query, hence never KILLed, but cut by offline_mode = ON
	Excluded bool
}

type TxnStatus int

const (
	TxnPending TxnStatus = iota
	TxnAcked
	TxnRefused
	TxnUnknown
)

func (s TxnStatus) String() string {
	return [...]string{"pending", "acked", "refused", "unknown"}[s]
}

// Txn is one client commit attempt in the workload ledger.
type Txn struct {
	ID     GTID
	Host   string
	Status TxnStatus
	At     time.Duration
	AckAt  time.Duration
}

var uuids = map[string]string{}

// UUIDFor returns a stable, parseable server uuid for a host name.
func UUIDFor(host string) string {
	if u, ok := uuids[host]; ok {
		return u
	}
	h := uint32(2166136261)
	for _, c := range []byte(host) {
		h = (h ^ uint32(c)) * 16777619
	}
	if h == 0 {
		h = 1
	}
	u := fmt.Sprintf("%08x-0000-4000-8000-%012x", h, h)
	uuids[host] = u
	return u
}

// AddServer creates a running server with the README's required restart defaults switched to
// a plain writable master state; callers adjust fields afterwards.
func (w *World) AddServer(host string) *Server {
	s := &Server{
		Host: host, UUID: UUIDFor(host), Version: [3]int{8, 0, 36}, Up: true,
		Executed: GSet{}, Retrieved: GSet{}, PluginLoaded: true, WaitCount: 1,
		FlushLog: 1, SyncBinlog: 1,
		Binlogs: []Binlog{{"mysql-bin-log.000001", 1000}},
	}
	w.Servers[host] = s
	return s
}

// MakeReplica configures s as a running replica of src.
func (s *Server) MakeReplica(src string) {
	s.HasSource, s.Source = true, src
	s.IORunning, s.SQLRunning = true, true
	s.ReadOnly, s.SuperRO = true, true
	s.IOErrno, s.SQLErrno = 0, 0
	s.SSLatched = s.SSSlave
	s.SourceLogFile = "mysql-bin-log.000001"
	s.ReadSourceLogPos = 1000
}

// Crash stops the server process. Waiting commits become unknown to their clients.
func (s *Server) Crash(w *World) {
	if !s.Up {
		return
	}
	s.Up = false
	w.Counters["mysql_crash"]++
	for _, se := range s.Sessions {
		if se.Waiting != nil {
			w.resolve(*se.Waiting, TxnUnknown)
		}
	}
	s.Sessions = nil
	w.recheckBlocked()
}

// Start brings the server up with the restart defaults the README requires.
func (s *Server) Start(w *World) {
	if s.Up {
		return
	}
	s.Up = true
	s.ReadOnly, s.SuperRO, s.Offline = true, true, true
	s.SSMaster, s.SSSlave, s.WaitCount = false, false, 1
	s.FlushLog, s.SyncBinlog = 1, 1
	s.StartTime = w.Now()
	if s.HasSource {
		s.IORunning, s.SQLRunning = true, true
		s.IOErrno = 0
		s.SSLatched = s.SSSlave
	}
}

func (s *Server) blocksReadOnly() bool {
	for _, se := range s.Sessions {
		if se.Waiting != nil || (se.Long && se.Alive) {
			return true
		}
	}
	return false
}

func (s *Server) HasWaiters() bool {
	for _, se := range s.Sessions {
		if se.Waiting != nil {
			return true
		}
	}
	return false
}

// Positions returns executed ∪ retrieved.
func (s *Server) Positions() GSet { return s.Executed.Union(s.Retrieved) }

// ---------------------------------------------------------------------------------------------
// workload

func (w *World) resolve(id GTID, st TxnStatus) {
	for _, t := range w.Ledger {
		if t.ID == id && t.Status == TxnPending {
			t.Status = st
			t.AckAt = w.Now()
		}
	}
}

// Accepts reports whether the server would accept a client write now.
func (s *Server) Accepts(w *World) bool {
	return s.Up && !s.ReadOnly && !s.Offline && w.Reach("client", s.Host)
}

// Write is one client commit attempt on host h.
func (w *World) Write(h string) *Txn { return w.WriteAs(h, false) }

// WriteAs is Write by an ordinary user or by a user listed in exclude_users.
func (w *World) WriteAs(h string, excluded bool) *Txn {
	s := w.Servers[h]
	t := &Txn{Host: h, At: w.Now()}
	if s == nil || !s.Accepts(w) {
		t.Status = TxnRefused
		w.Ledger = append(w.Ledger, t)
		return t
	}
	gno := s.Executed.MaxGno(s.UUID) + 1
	if gno > 62 {
		t.Status = TxnRefused
		w.Ledger = append(w.Ledger, t)
		return t
	}
	t.ID = GTID{s.UUID, gno}
	s.Executed.Add(s.UUID, gno) // binlogged and visible to dump threads (AFTER_SYNC)
	s.Binlogs[len(s.Binlogs)-1].Size += 100
	w.Ledger = append(w.Ledger, t)
	if !s.SSMaster || s.WaitCount == 0 {
		t.Status = TxnAcked
		t.AckAt = w.Now()
		return t
	}
	s.nextSess++
	id := t.ID
	s.Sessions = append(s.Sessions, &Session{ID: 100 + s.nextSess, Alive: true, Waiting: &id, Excluded: excluded})
	w.SettleAcks(s)
	return t
}

// OpenLongQuery models a client statement that blocks SET read_only until killed.
func (s *Server) OpenLongQuery() *Session {
	s.nextSess++
	se := &Session{ID: 100 + s.nextSess, Alive: true, Long: true}
	s.Sessions = append(s.Sessions, se)
	return se
}

func (w *World) ackers(s *Server, id GTID) int {
	n := 0
	for _, r := range w.Servers {
		if r == s || !r.Up || !r.HasSource || r.Source != s.Host || !r.IORunning || r.IOErrno != 0 || !r.SSLatched {
			continue
		}
		if !w.Reach(r.Host, s.Host) {
			continue
		}
		if r.Retrieved.Has(id.UUID, id.Gno) || r.Executed.Has(id.UUID, id.Gno) {
			n++
		}
	}
	return n
}

// SettleAcks resolves waiting commits on s that have enough acknowledgements (or whose wait was
// released by switching the master plugin off).
func (w *World) SettleAcks(s *Server) {
	kept := s.Sessions[:0]
	for _, se := range s.Sessions {
		if se.Waiting != nil && (!s.SSMaster || w.ackers(s, *se.Waiting) >= s.WaitCount) {
			if se.Alive {
				w.resolve(*se.Waiting, TxnAcked)
			} else {
				w.resolve(*se.Waiting, TxnUnknown)
			}
			continue // session's commit returns; session ends
		}
		kept = append(kept, se)
	}
	s.Sessions = kept
}

// Replicate lets r's IO thread fetch from its source (all missing transactions, or one).
func (w *World) Replicate(host string) bool {
	r := w.Servers[host]
	if r == nil || !r.Up || !r.HasSource || !r.IORunning || r.IOStalled {
		return false
	}
	src := w.Servers[r.Source]
	if src == nil || !src.Up || !w.Reach(r.Host, src.Host) {
		return false
	}
	have := r.Positions()
	// the source cannot serve a replica that holds transactions of the source's own uuid the source lacks
	if have[src.UUID]&^src.Executed[src.UUID] != 0 {
		r.IORunning = false
		r.IOErrno = 13114
		r.IOError = "Got fatal error 1236 from source when reading data from binary log"
		return true
	}
	missing := src.Executed.Minus(have)
	if missing.Empty() {
		return false
	}
	l := missing.List()
	if r.RelayOneAtATime {
		l = l[:1]
	}
	for _, t := range l {
		r.Retrieved.Add(t.UUID, t.Gno)
	}
	r.ReadSourceLogPos += int64(100 * len(l))
	w.SettleAcks(src)
	w.recheckBlocked()
	return true
}

// Apply lets r's SQL thread apply what its relay log holds.
func (w *World) Apply(host string) bool {
	r := w.Servers[host]
	if r == nil || !r.Up || !r.HasSource || !r.SQLRunning || r.StuckSQL {
		return false
	}
	todo := r.Retrieved.Minus(r.Executed)
	if todo.Empty() {
		return false
	}
	if r.InjectSQLErrno != 0 {
		r.SQLRunning = false
		r.SQLErrno = r.InjectSQLErrno
		r.SQLError = fmt.Sprintf("Error %d applying event", r.InjectSQLErrno)
		return true
	}
	r.Executed.AddAll(todo)
	if src := w.Servers[r.Source]; src != nil && src.ReplMon {
		r.ReplMon, r.ReplMonTS = true, src.ReplMonTS
	}
	return true
}

// ---------------------------------------------------------------------------------------------
// statements

var wsRe = regexp.MustCompile(`\s+`)

func normSQL(q string) string { return strings.TrimSpace(wsRe.ReplaceAllString(q, " ")) }

var (
	reReplCmd   = regexp.MustCompile(`^(STOP|START) (REPLICA|SLAVE)( IO_THREAD| SQL_THREAD)? FOR CHANNEL ''$`)
	reStatus    = regexp.MustCompile(`^SHOW (REPLICA|SLAVE) STATUS FOR CHANNEL ''$`)
	reReset     = regexp.MustCompile(`^RESET (REPLICA|SLAVE) ALL FOR CHANNEL ''$`)
	reChange    = regexp.MustCompile(`^CHANGE (REPLICATION SOURCE|MASTER) TO (SOURCE|MASTER)_HOST = '([^']*)' ?, .*(SOURCE|MASTER)_AUTO_POSITION = 1, .* FOR CHANNEL ''$`)
	reProcList  = regexp.MustCompile(`^SELECT ID FROM information_schema\.PROCESSLIST p WHERE USER NOT IN \(\?(, \?)*\) AND COMMAND != 'Killed'$`)
	reEnableEv  = regexp.MustCompile("^ALTER DEFINER = '([^']*)'@'([^']*)' EVENT `([^`]*)`\\.`([^`]*)` ENABLE$")
	reReplMonTS = regexp.MustCompile("^SELECT UNIX_TIMESTAMP\\(ts\\) AS ts FROM `[^`]+`\\.`[^`]+`$")
	reReplMonDl = regexp.MustCompile("^SELECT FLOOR\\(CAST\\('([^']*)' AS DECIMAL\\(20,3\\)\\) - UNIX_TIMESTAMP\\(ts\\)\\) AS delay FROM `[^`]+`\\.`[^`]+`$")
	reReplMonCr = regexp.MustCompile("^CREATE TABLE IF NOT EXISTS `[^`]+`\\.`[^`]+`\\( id INT NOT NULL PRIMARY KEY, ts TIMESTAMP\\(3\\) \\) ENGINE=INNODB$")
	reReplMonUp = regexp.MustCompile("^INSERT INTO `[^`]+`\\.`[^`]+`\\(id, ts\\) \\( SELECT 1, CURRENT_TIMESTAMP\\(3\\) WHERE @@read_only = 0 \\) ON DUPLICATE KEY UPDATE ts = CURRENT_TIMESTAMP\\(3\\)$")
)

const (
	qPing       = "SELECT 1 AS Ok"
	qVersion    = "SELECT sys.version_major() AS MajorVersion, sys.version_minor() AS MinorVersion, sys.version_patch() AS PatchVersion"
	qGtidExec   = "SELECT @@GLOBAL.gtid_executed as Executed_Gtid_Set"
	qUUID       = "SELECT @@server_uuid as server_uuid"
	qBinlogs    = "SHOW BINARY LOGS"
	qIsRO       = "SELECT @@read_only AS ReadOnly, @@super_read_only AS SuperReadOnly"
	qSetRO      = "SET GLOBAL super_read_only = 1"
	qSetRONoSup = "SET GLOBAL read_only = 1, super_read_only = 0"
	qSetRW      = "SET GLOBAL read_only = 0"
	qLockTO     = "SET SESSION lock_wait_timeout = ?"
	qSSStatus   = "SELECT @@rpl_semi_sync_master_enabled AS MasterEnabled, @@rpl_semi_sync_slave_enabled AS SlaveEnabled, @@rpl_semi_sync_master_wait_for_slave_count as WaitSlaveCount"
	qSSMaster   = "SET GLOBAL rpl_semi_sync_master_enabled = 1, rpl_semi_sync_slave_enabled = 0"
	qSSSlave    = "SET GLOBAL rpl_semi_sync_slave_enabled = 1, rpl_semi_sync_master_enabled = 0"
	qSSOff      = "SET GLOBAL rpl_semi_sync_slave_enabled = 0, rpl_semi_sync_master_enabled = 0"
	qSSWait     = "SET GLOBAL rpl_semi_sync_master_wait_for_slave_count = ?"
	qEvents1    = "SELECT EVENT_SCHEMA, EVENT_NAME, DEFINER FROM information_schema.EVENTS WHERE STATUS = 'SLAVESIDE_DISABLED' OR STATUS = 'REPLICA_SIDE_DISABLED'"
	qEvents2    = "SELECT EVENT_SCHEMA, EVENT_NAME, DEFINER FROM information_schema.EVENTS WHERE STATUS = 'REPLICA_SIDE_DISABLED' OR STATUS = 'SLAVESIDE_DISABLED'"
	qKill       = "KILL ?"
	qOffOn      = "SET GLOBAL offline_mode = ON"
	qOffOff     = "SET GLOBAL offline_mode = OFF"
	qOffGet     = "SELECT @@GLOBAL.offline_mode AS OfflineMode"
	qWaitingAck = "SELECT count(*) <> 0 AS IsWaiting FROM information_schema.PROCESSLIST WHERE state like 'Waiting for semi-sync ACK from%'"
	qStartup    = "SELECT UNIX_TIMESTAMP(DATE_SUB(now(), INTERVAL variable_value SECOND)) AS LastStartup FROM performance_schema.global_status WHERE variable_name='Uptime'"
	qSetFlush   = "SET GLOBAL innodb_flush_log_at_trx_commit = ?"
	qSetSyncBin = "SET GLOBAL sync_binlog = ?"
	qGetReplSet = "SELECT @@GLOBAL.innodb_flush_log_at_trx_commit as InnodbFlushLogAtTrxCommit, @@GLOBAL.sync_binlog as SyncBinlog"
	// custom replication_lag query configured by the harness (queries.replication_lag), as the
	// project's own test configuration does: the lag value is independent of thread states
	qCustomLag = "SELECT verif_lag AS Seconds_Behind_Master"
)

// Classify returns a short operation name and whether the statement changes server state.
func Classify(q string) (op string, mut bool) {
	switch q {
	case qPing:
		return "ping", false
	case qVersion:
		return "version", false
	case qGtidExec:
		return "gtid_executed", false
	case qUUID:
		return "uuid", false
	case qBinlogs:
		return "binlogs", false
	case qIsRO:
		return "is_ro", false
	case qSetRO:
		return "SET_SUPER_RO", true
	case qSetRONoSup:
		return "SET_RO_NOSUPER", true
	case qSetRW:
		return "SET_WRITABLE", true
	case qLockTO:
		return "lock_timeout", false
	case qSSStatus:
		return "ss_status", false
	case qSSMaster:
		return "SS_MASTER_ON", true
	case qSSSlave:
		return "SS_SLAVE_ON", true
	case qSSOff:
		return "SS_OFF", true
	case qSSWait:
		return "SS_WAIT_COUNT", true
	case qEvents1, qEvents2:
		return "events", false
	case qKill:
		return "KILL", true
	case qOffOn:
		return "OFFLINE_ON", true
	case qOffOff:
		return "OFFLINE_OFF", true
	case qOffGet:
		return "offline_get", false
	case qWaitingAck:
		return "waiting_ack", false
	case qStartup:
		return "startup_time", false
	case qSetFlush:
		return "SET_FLUSH_LOG", true
	case qSetSyncBin:
		return "SET_SYNC_BINLOG", true
	case qGetReplSet:
		return "repl_settings", false
	case qCustomLag:
		return "custom_lag", false
	}
	if m := reReplCmd.FindStringSubmatch(q); m != nil {
		return m[1] + "_REPLICA" + strings.ReplaceAll(m[3], " ", "_"), true
	}
	if reStatus.MatchString(q) {
		return "replica_status", false
	}
	if reReset.MatchString(q) {
		return "RESET_REPLICA_ALL", true
	}
	if reChange.MatchString(q) {
		return "CHANGE_SOURCE", true
	}
	if reProcList.MatchString(q) {
		return "processlist", false
	}
	if reEnableEv.MatchString(q) {
		return "ENABLE_EVENT", true
	}
	if reReplMonTS.MatchString(q) {
		return "repl_mon_ts", false
	}
	if reReplMonDl.MatchString(q) {
		return "repl_mon_delay", false
	}
	if reReplMonCr.MatchString(q) {
		return "REPL_MON_CREATE", true
	}
	if reReplMonUp.MatchString(q) {
		return "REPL_MON_UPDATE", true
	}
	return "", false
}

func one(cols []string, vals ...driver.Value) *RowSet {
	return &RowSet{Cols: cols, Rows: [][]driver.Value{vals}}
}

func b2i(b bool) int64 {
	if b {
		return 1
	}
	return 0
}

func argInt(c *Call, i int) (int, error) {
	if i >= len(c.Args) {
		return 0, fmt.Errorf("missing argument %d", i)
	}
	switch v := c.Args[i].Value.(type) {
	case int64:
		return int(v), nil
	case int:
		return v, nil
	case string:
		return strconv.Atoi(v)
	case []byte:
		return strconv.Atoi(string(v))
	}
	return 0, fmt.Errorf("bad argument %v", c.Args[i].Value)
}

func (s *Server) is57() bool { return s.Version[0] == 5 }

func (s *Server) mutated(c *Call) {
	s.MutCount++
	s.LastMutProc = c.Proc
}

// Exec executes one statement. block=true means the statement waits inside the server.
func (s *Server) Exec(w *World, c *Call) (rows *RowSet, err error, block bool) {
	q := c.SQL
	if n, ok := s.FailOps[c.Op]; ok {
		return nil, mysqlErr(n, "injected failure of "+c.Op), false
	}
	switch q {
	case qPing:
		return one([]string{"Ok"}, int64(1)), nil, false
	case qVersion:
		return one([]string{"MajorVersion", "MinorVersion", "PatchVersion"}, int64(s.Version[0]), int64(s.Version[1]), int64(s.Version[2])), nil, false
	case qGtidExec:
		return one([]string{"Executed_Gtid_Set"}, s.Executed.String()), nil, false
	case qUUID:
		return one([]string{"server_uuid"}, s.UUID), nil, false
	case qBinlogs:
		rs := &RowSet{Cols: []string{"Log_name", "File_size"}}
		for _, b := range s.Binlogs {
			rs.Rows = append(rs.Rows, []driver.Value{b.Name, b.Size})
		}
		return rs, nil, false
	case qIsRO:
		return one([]string{"ReadOnly", "SuperReadOnly"}, b2i(s.ReadOnly), b2i(s.SuperRO)), nil, false
	case qSetRO, qSetRONoSup:
		if s.FailRO != 0 {
			return nil, mysqlErr(s.FailRO, "injected failure of SET read_only"), false
		}
		if s.blocksReadOnly() {
			return nil, nil, true
		}
		s.ReadOnly = true
		s.SuperRO = q == qSetRO
		s.mutated(c)
		return nil, nil, false
	case qSetRW:
		s.ReadOnly, s.SuperRO = false, false
		s.mutated(c)
		return nil, nil, false
	case qLockTO:
		return nil, nil, false
	case qSSStatus:
		if s.FailSSQuery {
			return nil, fmt.Errorf("injected: semi-sync status query failed"), false
		}
		if !s.PluginLoaded {
			return nil, mysqlErr(1193, "Unknown system variable 'rpl_semi_sync_master_enabled'"), false
		}
		return one([]string{"MasterEnabled", "SlaveEnabled", "WaitSlaveCount"}, b2i(s.SSMaster), b2i(s.SSSlave), int64(s.WaitCount)), nil, false
	case qSSMaster, qSSSlave, qSSOff:
		if !s.PluginLoaded {
			return nil, mysqlErr(1193, "Unknown system variable 'rpl_semi_sync_master_enabled'"), false
		}
		s.SSMaster = q == qSSMaster
		s.SSSlave = q == qSSSlave
		s.mutated(c)
		w.SettleAcks(s)
		return nil, nil, false
	case qSSWait:
		n, e := argInt(c, 0)
		if e != nil {
			return nil, e, false
		}
		if !s.PluginLoaded {
			return nil, mysqlErr(1193, "Unknown system variable 'rpl_semi_sync_master_wait_for_slave_count'"), false
		}
		if n < 1 {
			// MySQL truncates an out-of-range value to the minimum 1 with a warning
			n = 1
		}
		s.WaitCount = n
		s.mutated(c)
		w.SettleAcks(s)
		return nil, nil, false
	case qEvents1, qEvents2:
		rs := &RowSet{Cols: []string{"EVENT_SCHEMA", "EVENT_NAME", "DEFINER"}}
		for _, e := range s.Events {
			if e.Disabled {
				rs.Rows = append(rs.Rows, []driver.Value{e.Schema, e.Name, e.Definer})
			}
		}
		return rs, nil, false
	case qKill:
		id, e := argInt(c, 0)
		if e != nil {
			return nil, e, false
		}
		for _, se := range s.Sessions {
			if se.ID == id {
				se.Alive = false
			}
		}
		s.mutated(c)
		return nil, nil, false
	case qOffOn:
		s.Offline = true
		for _, se := range s.Sessions {
			se.Alive = false
		}
		s.mutated(c)
		return nil, nil, false
	case qOffOff:
		s.Offline = false
		s.mutated(c)
		return nil, nil, false
	case qOffGet:
		return one([]string{"OfflineMode"}, b2i(s.Offline)), nil, false
	case qWaitingAck:
		return one([]string{"IsWaiting"}, b2i(s.HasWaiters())), nil, false
	case qStartup:
		return one([]string{"LastStartup"}, float64(t0.Unix())+s.StartTime.Seconds()), nil, false
	case qSetFlush:
		n, e := argInt(c, 0)
		if e != nil {
			return nil, e, false
		}
		s.FlushLog = n
		s.mutated(c)
		return nil, nil, false
	case qSetSyncBin:
		n, e := argInt(c, 0)
		if e != nil {
			return nil, e, false
		}
		s.SyncBinlog = n
		s.mutated(c)
		return nil, nil, false
	case qGetReplSet:
		return one([]string{"InnodbFlushLogAtTrxCommit", "SyncBinlog"}, int64(s.FlushLog), int64(s.SyncBinlog)), nil, false
	case qCustomLag:
		if !s.HasSource {
			return &RowSet{Cols: []string{"Seconds_Behind_Master"}}, nil, false
		}
		var v driver.Value
		if s.Lag != nil {
			v = *s.Lag
		}
		return one([]string{"Seconds_Behind_Master"}, v), nil, false
	}
	if m := reStatus.FindStringSubmatch(q); m != nil {
		if (m[1] == "REPLICA") == s.is57() {
			return nil, mysqlErr(1064, "You have an error in your SQL syntax"), false
		}
		return s.statusRows(w), nil, false
	}
	if m := reReplCmd.FindStringSubmatch(q); m != nil {
		if m[2] == "REPLICA" && s.is57() {
			return nil, mysqlErr(1064, "You have an error in your SQL syntax"), false
		}
		io := m[3] == "" || m[3] == " IO_THREAD"
		sqlT := m[3] == "" || m[3] == " SQL_THREAD"
		if m[1] == "STOP" {
			if io {
				s.IORunning = false
			}
			if sqlT {
				s.SQLRunning = false
			}
			s.mutated(c)
			if io {
				if src := w.Servers[s.Source]; src != nil {
					w.SettleAcks(src)
				}
			}
			return nil, nil, false
		}
		if !s.HasSource {
			return nil, mysqlErr(1200, "The server is not configured as replica; fix in config file or with CHANGE REPLICATION SOURCE TO"), false
		}
		if io {
			s.IORunning = true
			s.IOErrno, s.IOError = 0, ""
			s.SSLatched = s.SSSlave
		}
		if sqlT {
			s.SQLRunning = true
			s.SQLErrno, s.SQLError = 0, ""
		}
		s.mutated(c)
		return nil, nil, false
	}
	if reReset.MatchString(q) {
		if s.IORunning || s.SQLRunning {
			return nil, mysqlErr(3081, "This operation cannot be performed with running replication threads; run STOP REPLICA FOR CHANNEL '' first"), false
		}
		s.HasSource, s.Source = false, ""
		s.Retrieved = GSet{}
		s.IOErrno, s.SQLErrno, s.IOError, s.SQLError = 0, 0, "", ""
		s.mutated(c)
		return nil, nil, false
	}
	if m := reChange.FindStringSubmatch(q); m != nil {
		if (m[1] == "REPLICATION SOURCE") == s.is57() {
			return nil, mysqlErr(1064, "You have an error in your SQL syntax"), false
		}
		if s.IORunning || s.SQLRunning {
			return nil, mysqlErr(3081, "This operation cannot be performed with running replication threads; run STOP REPLICA FOR CHANNEL '' first"), false
		}
		s.HasSource, s.Source = true, m[3]
		s.Retrieved = GSet{}
		s.IOErrno, s.SQLErrno, s.IOError, s.SQLError = 0, 0, "", ""
		s.SourceLogFile, s.ReadSourceLogPos = "", 4
		s.mutated(c)
		return nil, nil, false
	}
	if reProcList.MatchString(q) {
		rs := &RowSet{Cols: []string{"ID"}}
		for _, se := range s.Sessions {
			if se.Alive && !se.Excluded {
				rs.Rows = append(rs.Rows, []driver.Value{int64(se.ID)})
			}
		}
		return rs, nil, false
	}
	if m := reEnableEv.FindStringSubmatch(q); m != nil {
		for _, e := range s.Events {
			if e.Schema == m[3] && e.Name == m[4] {
				e.Disabled = false
			}
		}
		s.mutated(c)
		return nil, nil, false
	}
	if reReplMonTS.MatchString(q) {
		if !s.ReplMon {
			return nil, mysqlErr(1146, "Table 'mysql.mysync_repl_mon' doesn't exist"), false
		}
		return one([]string{"ts"}, strconv.FormatFloat(s.ReplMonTS, 'f', 3, 64)), nil, false
	}
	if m := reReplMonDl.FindStringSubmatch(q); m != nil {
		if !s.ReplMon {
			return nil, mysqlErr(1146, "Table 'mysql.mysync_repl_mon' doesn't exist"), false
		}
		ts, _ := strconv.ParseFloat(m[1], 64)
		d := ts - s.ReplMonTS
		if d < 0 {
			d -= 0.999
		}
		return one([]string{"delay"}, int64(d)), nil, false
	}
	if reReplMonCr.MatchString(q) {
		s.ReplMon = true
		s.mutated(c)
		return nil, nil, false
	}
	if reReplMonUp.MatchString(q) {
		if !s.ReplMon {
			return nil, mysqlErr(1146, "Table 'mysql.mysync_repl_mon' doesn't exist"), false
		}
		if !s.ReadOnly {
			s.ReplMonTS = float64(t0.Unix()) + w.Now().Seconds()
		}
		return nil, nil, false
	}
	w.Unknown = append(w.Unknown, "unknown SQL statement: "+q)
	return nil, fmt.Errorf("verif: unknown statement %q", q), false
}

func (s *Server) ioState(w *World) (string, int, string) {
	if !s.IORunning {
		return "No", s.IOErrno, s.IOError
	}
	src := w.Servers[s.Source]
	if src == nil || !src.Up || !w.Reach(s.Host, s.Source) {
		return "Connecting", 2003, fmt.Sprintf("error connecting to master 'repl@%s:3306'", s.Source)
	}
	return "Yes", 0, ""
}

func (s *Server) statusRows(w *World) *RowSet {
	cols := []string{"Source_Host", "Source_Port", "Source_Log_File", "Read_Source_Log_Pos", "Replica_IO_Running", "Replica_SQL_Running",
		"Last_Error", "Retrieved_Gtid_Set", "Executed_Gtid_Set", "Last_IO_Errno", "Last_IO_Error", "Last_SQL_Errno", "Seconds_Behind_Source"}
	if s.is57() {
		cols = []string{"Master_Host", "Master_Port", "Master_Log_File", "Read_Master_Log_Pos", "Slave_IO_Running", "Slave_SQL_Running",
			"Last_Error", "Retrieved_Gtid_Set", "Executed_Gtid_Set", "Last_IO_Errno", "Last_IO_Error", "Last_SQL_Errno", "Seconds_Behind_Master"}
	}
	if !s.HasSource {
		return &RowSet{Cols: cols}
	}
	io, ioErrno, ioErr := s.ioState(w)
	sqlR := "No"
	if s.SQLRunning {
		sqlR = "Yes"
	}
	var lag driver.Value
	if s.SQLRunning && io == "Yes" {
		if s.Lag != nil {
			lag = *s.Lag
		} else {
			lag = float64(0)
		}
	}
	lastErr := s.SQLError
	return &RowSet{Cols: cols, Rows: [][]driver.Value{{s.Source, int64(3306), s.SourceLogFile, s.ReadSourceLogPos, io, sqlR,
		lastErr, s.Retrieved.String(), s.Executed.String(), int64(ioErrno), ioErr, int64(s.SQLErrno), lag}}}
}

// Dump renders the server state canonically.
func (s *Server) Dump(w *World) string {
	var b strings.Builder
	fmt.Fprintf(&b, "%s up=%v ro=%v sro=%v off=%v exec=[%s]", s.Host, s.Up, s.ReadOnly, s.SuperRO, s.Offline, strings.ReplaceAll(s.Executed.String(), "\n", ""))
	if s.HasSource {
		lag := "nil"
		if s.Lag != nil {
			lag = fmt.Sprint(*s.Lag)
		}
		fmt.Fprintf(&b, " src=%s io=%v sql=%v ioerr=%d sqlerr=%d retr=[%s] lag=%s pos=%s/%d stalled=%v", s.Source, s.IORunning, s.SQLRunning, s.IOErrno, s.SQLErrno,
			strings.ReplaceAll(s.Retrieved.String(), "\n", ""), lag, s.SourceLogFile, s.ReadSourceLogPos, s.IOStalled)
	}
	fmt.Fprintf(&b, " ssm=%v sss=%v wc=%d latched=%v plug=%v flush=%d sync=%d", s.SSMaster, s.SSSlave, s.WaitCount, s.SSLatched, s.PluginLoaded, s.FlushLog, s.SyncBinlog)
	var ss []string
	for _, se := range s.Sessions {
		ss = append(ss, fmt.Sprintf("%d:%v:%v:%v", se.ID, se.Alive, se.Long, se.Waiting != nil))
	}
	sort.Strings(ss)
	fmt.Fprintf(&b, " sess=%v", ss)
	for _, e := range s.Events {
		fmt.Fprintf(&b, " ev=%s.%s:%v", e.Schema, e.Name, e.Disabled)
	}
	if s.ReplMon {
		fmt.Fprintf(&b, " replmon=%.0f", s.ReplMonTS)
	}
	// fault knobs decide futures too: two states that differ only in them must not be merged
	if len(s.FailOps) > 0 {
		var fo []string
		for k, v := range s.FailOps {
			fo = append(fo, fmt.Sprintf("%s:%d", k, v))
		}
		sort.Strings(fo)
		fmt.Fprintf(&b, " failops=%v", fo)
	}
	if s.FailRO != 0 || s.StuckSQL || s.Hung || s.Dubious {
		fmt.Fprintf(&b, " knobs=%v/%v/%v/%v", s.FailRO, s.StuckSQL, s.Hung, s.Dubious)
	}
	return b.String()
}

// BlocksReadOnly reports whether a SET read_only statement would block now.
func (s *Server) BlocksReadOnly() bool { return s.blocksReadOnly() }
