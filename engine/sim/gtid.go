package sim

import (
	"fmt"
	"math/bits"
	"sort"
	"strings"
)

// GSet is a GTID set over a small universe: server uuid -> bitset of transaction numbers 1..63.
type GSet map[string]uint64

func (g GSet) Clone() GSet {
	r := GSet{}
	for k, v := range g {
		if v != 0 {
			r[k] = v
		}
	}
	return r
}

func (g GSet) Has(uuid string, gno int) bool { return g[uuid]&(1<<uint(gno)) != 0 }

func (g GSet) Add(uuid string, gno int) { g[uuid] |= 1 << uint(gno) }

func (g GSet) AddAll(o GSet) {
	for k, v := range o {
		g[k] |= v
	}
}

func (g GSet) Union(o GSet) GSet {
	r := g.Clone()
	r.AddAll(o)
	return r
}

// Minus returns g \ o.
func (g GSet) Minus(o GSet) GSet {
	r := GSet{}
	for k, v := range g {
		if d := v &^ o[k]; d != 0 {
			r[k] = d
		}
	}
	return r
}

func (g GSet) SubsetOf(o GSet) bool {
	for k, v := range g {
		if v&^o[k] != 0 {
			return false
		}
	}
	return true
}

func (g GSet) Equal(o GSet) bool { return g.SubsetOf(o) && o.SubsetOf(g) }

func (g GSet) Empty() bool {
	for _, v := range g {
		if v != 0 {
			return false
		}
	}
	return true
}

func (g GSet) Count() int {
	n := 0
	for _, v := range g {
		n += bits.OnesCount64(v)
	}
	return n
}

// MaxGno returns the largest transaction number of uuid in g (0 if none).
func (g GSet) MaxGno(uuid string) int {
	v := g[uuid]
	if v == 0 {
		return 0
	}
	return 63 - bits.LeadingZeros64(v)
}

// List returns the members in (uuid, gno) order.
func (g GSet) List() []GTID {
	var uu []string
	for k, v := range g {
		if v != 0 {
			uu = append(uu, k)
		}
	}
	sort.Strings(uu)
	var r []GTID
	for _, u := range uu {
		for i := 1; i < 64; i++ {
			if g[u]&(1<<uint(i)) != 0 {
				r = append(r, GTID{u, i})
			}
		}
	}
	return r
}

// GTID is one transaction id.
type GTID struct {
	UUID string
	Gno  int
}

func (t GTID) String() string { return fmt.Sprintf("%s:%d", t.UUID, t.Gno) }

// String renders MySQL text: uuid:1-3:5,uuid2:1
func (g GSet) String() string {
	var uu []string
	for k, v := range g {
		if v != 0 {
			uu = append(uu, k)
		}
	}
	sort.Strings(uu)
	var parts []string
	for _, u := range uu {
		var b strings.Builder
		b.WriteString(u)
		v := g[u]
		i := 1
		for i < 64 {
			if v&(1<<uint(i)) == 0 {
				i++
				continue
			}
			j := i
			for j+1 < 64 && v&(1<<uint(j+1)) != 0 {
				j++
			}
			if i == j {
				fmt.Fprintf(&b, ":%d", i)
			} else {
				fmt.Fprintf(&b, ":%d-%d", i, j)
			}
			i = j + 1
		}
		parts = append(parts, b.String())
	}
	return strings.Join(parts, ",\n")
}

// Range builds {uuid:1..n}.
func Range(uuid string, n int) GSet {
	g := GSet{}
	for i := 1; i <= n; i++ {
		g.Add(uuid, i)
	}
	return g
}

// ParseGSet parses the text produced by String (used by drivers for world descriptions).
func ParseGSet(s string) GSet {
	g := GSet{}
	s = strings.ReplaceAll(s, "\n", "")
	for _, part := range strings.Split(s, ",") {
		part = strings.TrimSpace(part)
		if part == "" {
			continue
		}
		f := strings.Split(part, ":")
		u := f[0]
		for _, iv := range f[1:] {
			var a, b int
			if n, _ := fmt.Sscanf(iv, "%d-%d", &a, &b); n == 2 {
				for i := a; i <= b; i++ {
					g.Add(u, i)
				}
			} else if n, _ := fmt.Sscanf(iv, "%d", &a); n == 1 {
				g.Add(u, a)
			}
		}
	}
	return g
}
