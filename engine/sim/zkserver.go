package sim

import (
	"errors"
	"fmt"
	"sort"
	"strings"
	"time"
)

// Client-visible ZooKeeper types; the zk shim package aliases them.

type ZKEventType int32
type ZKState int32

const (
	EventSession ZKEventType = -1

	StateUnknown      ZKState = -1
	StateDisconnected ZKState = 0
	StateConnecting   ZKState = 1
	StateConnected    ZKState = 100
	StateHasSession   ZKState = 101
	StateExpired      ZKState = -112
)

func (s ZKState) String() string {
	switch s {
	case StateDisconnected:
		return "StateDisconnected"
	case StateConnecting:
		return "StateConnecting"
	case StateConnected:
		return "StateConnected"
	case StateHasSession:
		return "StateHasSession"
	case StateExpired:
		return "StateExpired"
	}
	return "StateUnknown"
}

type ZKEvent struct {
	Type   ZKEventType
	State  ZKState
	Path   string
	Err    error
	Server string
}

type ZKStat struct {
	Czxid          int64
	Mzxid          int64
	Ctime          int64
	Mtime          int64
	Version        int32
	Cversion       int32
	Aversion       int32
	EphemeralOwner int64
	DataLength     int32
	NumChildren    int32
	Pzxid          int64
}

var (
	ErrConnectionClosed        = errors.New("zk: connection closed")
	ErrNoNode                  = errors.New("zk: node does not exist")
	ErrNodeExists              = errors.New("zk: node already exists")
	ErrBadVersion              = errors.New("zk: version conflict")
	ErrNotEmpty                = errors.New("zk: node has children")
	ErrNoChildrenForEphemerals = errors.New("zk: ephemeral nodes may not have children")
	ErrNoServer                = errors.New("zk: could not connect to a server")
	ErrSessionExpired          = errors.New("zk: session has been expired by the server")
	ErrClosing                 = errors.New("zk: zookeeper is closing")
	ErrBadArguments            = errors.New("zk: invalid arguments")
	ErrNoAuth                  = errors.New("zk: not authenticated")
	ErrInvalidPath             = errors.New("zk: invalid path")
)

const FlagEphemeral = 1

type znode struct {
	Data     []byte
	Version  int32
	Cversion int32
	Eph      int64
	Czxid    int64
	Mzxid    int64
}

type ZKSession struct {
	ID     int64
	Client *ZKClient
	Alive  bool
}

type ZKServer struct {
	w          *World
	Nodes      map[string]*znode
	Sessions   map[int64]*ZKSession
	nextSess   int64
	zxid       int64
	Down       bool // the whole ensemble is unavailable
	ChildOrder int  // 0 sorted ascending, 1 descending
	Clients    []*ZKClient
}

func newZKServer(w *World) *ZKServer {
	return &ZKServer{w: w, Nodes: map[string]*znode{"/": {}}, Sessions: map[int64]*ZKSession{}, nextSess: 0x100}
}

// ZKClient is the client-side handle behind the zk shim's *Conn.
type ZKClient struct {
	w         *World
	ID        int
	Proc      string
	Session   int64
	Connected bool // has a live connection with a session
	Closed    bool
	Dead      bool // owning process crashed: no events, no requests
	Timeout   time.Duration
	Events    chan ZKEvent
	cutAt     time.Duration
	Reqs      int
	// Stalled: the server expired the session while the process was stalled (stopped, swapped out,
	// behind a black-holed link) - the client has not noticed anything yet and finds the connection
	// dead at its next request
	Stalled bool
}

type ZKRequest struct {
	Op      string // get set create delete children
	Path    string
	Data    []byte
	Version int32
	Flags   int32
	Client  *ZKClient
}

func (r *ZKRequest) String() string {
	switch r.Op {
	case "set":
		return fmt.Sprintf("zk set %s v%d %s", r.Path, r.Version, r.Data)
	case "create":
		return fmt.Sprintf("zk create %s flags=%d %s", r.Path, r.Flags, r.Data)
	case "delete":
		return fmt.Sprintf("zk delete %s v%d", r.Path, r.Version)
	}
	return fmt.Sprintf("zk %s %s", r.Op, r.Path)
}

type ZKReply struct {
	Err      error
	Data     []byte
	Stat     *ZKStat
	Children []string
	Path     string
}

func (z *ZKServer) reachable(c *ZKClient) bool {
	return !z.Down && z.w.Reach(z.w.hostOf(c.Proc), "zk")
}

// Connect creates a client handle for proc. Like the real library it returns at once; the
// session events are queued for the owner's event loop.
func (w *World) ZKConnect(proc string, timeout time.Duration) *ZKClient {
	z := w.ZK
	c := &ZKClient{w: w, ID: len(z.Clients) + 1, Proc: proc, Timeout: timeout, Events: make(chan ZKEvent, 256)}
	z.Clients = append(z.Clients, c)
	w.mu.Lock()
	if p := w.Procs[proc]; p != nil {
		p.ZK = append(p.ZK, c)
		p.OpenZK++
	}
	w.mu.Unlock()
	c.send(StateConnecting)
	if z.reachable(c) {
		c.send(StateConnected)
		z.newSession(c)
		c.send(StateHasSession)
	}
	return c
}

func (c *ZKClient) send(st ZKState) {
	if c.Dead || c.Closed {
		return
	}
	select {
	case c.Events <- ZKEvent{Type: EventSession, State: st, Server: "zk:2181"}:
	default:
	}
}

func (z *ZKServer) newSession(c *ZKClient) {
	z.nextSess++
	s := &ZKSession{ID: z.nextSess, Client: c, Alive: true}
	z.Sessions[s.ID] = s
	c.Session = s.ID
	c.Connected = true
}

func (c *ZKClient) die() {
	c.Dead = true
	c.Connected = false
	c.cutAt = c.w.Now()
	if c.w.ZKAutoExpire {
		c.scheduleExpiry()
	}
}

func (c *ZKClient) scheduleExpiry() {
	sess := c.Session
	w := c.w
	time.AfterFunc(c.Timeout, func() {
		if s := w.ZK.Sessions[sess]; s != nil && s.Alive && !c.Connected {
			w.ZK.expireSession(sess)
		}
	})
}

// Close ends the session cleanly (the real library sends a close request).
func (c *ZKClient) Close() {
	if c.Closed {
		return
	}
	c.Closed = true
	w := c.w
	w.mu.Lock()
	if p := w.Procs[c.Proc]; p != nil {
		p.OpenZK--
	}
	crashed := false
	if p := w.Procs[c.Proc]; p != nil {
		crashed = p.Crashed
	}
	w.mu.Unlock()
	if c.Connected && !c.Dead && !crashed && w.ZK.reachable(c) {
		w.ZK.expireSession(c.Session)
	} else if !c.Dead && w.ZKAutoExpire {
		c.cutAt = w.Now()
		c.scheduleExpiry()
	}
	c.Connected = false
	close(c.Events)
}

// Cut drops the client's connection: the client sees Disconnected and starts reconnecting.
func (z *ZKServer) Cut(c *ZKClient) {
	if !c.Connected || c.Closed || c.Dead {
		return
	}
	c.Connected = false
	c.cutAt = z.w.Now()
	c.send(StateDisconnected)
	c.send(StateConnecting)
	if z.w.ZKAutoExpire {
		c.scheduleExpiry()
	}
}

// Expire ends the client's session on the server (its ephemerals vanish). Only meaningful while
// the client is cut off or dead.
func (z *ZKServer) Expire(c *ZKClient) {
	z.expireSession(c.Session)
}

// StallExpire expires the client's session on the server without the client noticing (see Stalled).
func (z *ZKServer) StallExpire(c *ZKClient) {
	if !c.Connected || c.Closed || c.Dead {
		return
	}
	z.expireSession(c.Session)
	c.Stalled = true
}

func (z *ZKServer) expireSession(id int64) {
	s := z.Sessions[id]
	if s == nil || !s.Alive {
		return
	}
	s.Alive = false
	var del []string
	for p, n := range z.Nodes {
		if n.Eph == id {
			del = append(del, p)
		}
	}
	sort.Strings(del)
	for _, p := range del {
		delete(z.Nodes, p)
		if par := z.Nodes[parentOf(p)]; par != nil {
			par.Cversion++
		}
	}
	z.w.Counters["zk_session_expired"]++
}

// Heal re-establishes the client's connection; if its session has expired meanwhile the client
// goes through Expired and gets a new session id.
func (z *ZKServer) Heal(c *ZKClient) {
	if c.Connected || c.Closed || c.Dead || !z.reachable(c) {
		return
	}
	c.send(StateConnected)
	if s := z.Sessions[c.Session]; s != nil && s.Alive {
		c.Connected = true
		c.send(StateHasSession)
		return
	}
	c.send(StateExpired)
	c.send(StateDisconnected)
	c.send(StateConnecting)
	c.send(StateConnected)
	z.newSession(c)
	c.send(StateHasSession)
}

// SyncLinks cuts or heals every client according to current reachability (network / ensemble).
func (z *ZKServer) SyncLinks() {
	for _, c := range z.Clients {
		if c.Closed || c.Dead {
			continue
		}
		if z.reachable(c) {
			z.Heal(c)
		} else {
			z.Cut(c)
		}
	}
}

func parentOf(p string) string {
	i := strings.LastIndex(p, "/")
	if i <= 0 {
		return "/"
	}
	return p[:i]
}

func validPath(p string) bool {
	if p == "/" {
		return true
	}
	if !strings.HasPrefix(p, "/") || strings.HasSuffix(p, "/") || strings.Contains(p, "//") {
		return false
	}
	return true
}

func (z *ZKServer) stat(n *znode, path string) *ZKStat {
	nc := 0
	pre := path + "/"
	if path == "/" {
		pre = "/"
	}
	for p := range z.Nodes {
		if p != path && strings.HasPrefix(p, pre) && !strings.Contains(p[len(pre):], "/") {
			nc++
		}
	}
	return &ZKStat{Version: n.Version, Cversion: n.Cversion, EphemeralOwner: n.Eph, DataLength: int32(len(n.Data)), NumChildren: int32(nc), Czxid: n.Czxid, Mzxid: n.Mzxid}
}

func (z *ZKServer) children(path string) []string {
	pre := path + "/"
	if path == "/" {
		pre = "/"
	}
	var r []string
	for p := range z.Nodes {
		if p != path && strings.HasPrefix(p, pre) && !strings.Contains(p[len(pre):], "/") {
			r = append(r, p[len(pre):])
		}
	}
	sort.Strings(r)
	if z.ChildOrder == 1 {
		for i, j := 0, len(r)-1; i < j; i, j = i+1, j-1 {
			r[i], r[j] = r[j], r[i]
		}
	}
	return r
}

// Apply executes a request on the tree under the client's current session.
func (z *ZKServer) Apply(r *ZKRequest) ZKReply {
	if !validPath(r.Path) {
		return ZKReply{Err: ErrInvalidPath}
	}
	n := z.Nodes[r.Path]
	switch r.Op {
	case "get":
		if n == nil {
			return ZKReply{Err: ErrNoNode}
		}
		return ZKReply{Data: append([]byte(nil), n.Data...), Stat: z.stat(n, r.Path)}
	case "children":
		if n == nil {
			return ZKReply{Err: ErrNoNode}
		}
		return ZKReply{Children: z.children(r.Path), Stat: z.stat(n, r.Path)}
	case "set":
		if n == nil {
			return ZKReply{Err: ErrNoNode}
		}
		if r.Version != -1 && r.Version != n.Version {
			return ZKReply{Err: ErrBadVersion}
		}
		z.zxid++
		n.Data = append([]byte(nil), r.Data...)
		n.Version++
		n.Mzxid = z.zxid
		return ZKReply{Stat: z.stat(n, r.Path)}
	case "create":
		if n != nil {
			return ZKReply{Err: ErrNodeExists}
		}
		par := z.Nodes[parentOf(r.Path)]
		if par == nil {
			return ZKReply{Err: ErrNoNode}
		}
		if par.Eph != 0 {
			return ZKReply{Err: ErrNoChildrenForEphemerals}
		}
		z.zxid++
		nn := &znode{Data: append([]byte(nil), r.Data...), Czxid: z.zxid, Mzxid: z.zxid}
		if r.Flags&FlagEphemeral != 0 {
			nn.Eph = r.Client.Session
		}
		z.Nodes[r.Path] = nn
		par.Cversion++
		return ZKReply{Path: r.Path}
	case "delete":
		if n == nil {
			return ZKReply{Err: ErrNoNode}
		}
		if r.Version != -1 && r.Version != n.Version {
			return ZKReply{Err: ErrBadVersion}
		}
		if len(z.children(r.Path)) > 0 {
			return ZKReply{Err: ErrNotEmpty}
		}
		z.zxid++
		delete(z.Nodes, r.Path)
		if par := z.Nodes[parentOf(r.Path)]; par != nil {
			par.Cversion++
		}
		return ZKReply{}
	}
	return ZKReply{Err: ErrBadArguments}
}

func zkMutating(op string) bool { return op == "set" || op == "create" || op == "delete" }

func (w *World) executeZK(c *Call, pt *Point, dev Deviation) {
	r := c.ZKReq
	cl := r.Client
	cl.Reqs++
	z := w.ZK
	if cl.Closed {
		pt.Fails = true
		w.note(pt, c, false, ErrClosing)
		c.reply <- Reply{ZK: ZKReply{Err: ErrConnectionClosed}}
		return
	}
	if cl.Stalled {
		// the request finds the connection dead: it is not applied; the client reconnects, learns that
		// its session expired and gets a new one (events through the real channel)
		cl.Stalled = false
		pt.Fails = true
		z.Cut(cl)
		z.Heal(cl)
		w.note(pt, c, false, ErrConnectionClosed)
		c.reply <- Reply{ZK: ZKReply{Err: ErrConnectionClosed}, Delay: FailLatency}
		return
	}
	if !cl.Connected {
		pt.Fails = true
		// a request queued while disconnected fails once the host list is exhausted (about 1 s)
		w.note(pt, c, false, ErrNoServer)
		c.reply <- Reply{ZK: ZKReply{Err: ErrNoServer}, Delay: time.Second}
		return
	}
	switch dev.Kind {
	case DevErr:
		if dev.Arg == 1 {
			w.note(pt, c, false, ErrNoServer)
			c.reply <- Reply{ZK: ZKReply{Err: ErrNoServer}, Delay: FailLatency}
			return
		}
		// connection drops before the request reaches the server; the client reconnects at once
		z.Cut(cl)
		z.Heal(cl)
		w.note(pt, c, false, ErrConnectionClosed)
		c.reply <- Reply{ZK: ZKReply{Err: ErrConnectionClosed}, Delay: FailLatency}
		return
	case DevHang:
		// ZooKeeper requests carry no deadline: model a stall as a dropped connection
		z.Cut(cl)
		z.Heal(cl)
		w.note(pt, c, false, ErrConnectionClosed)
		c.reply <- Reply{ZK: ZKReply{Err: ErrConnectionClosed}, Delay: cl.Timeout / 3}
		return
	}
	rep := z.Apply(r)
	w.note(pt, c, rep.Err == nil && zkMutating(r.Op), rep.Err)
	if dev.Kind == DevLost {
		z.Cut(cl)
		z.Heal(cl)
		c.reply <- Reply{ZK: ZKReply{Err: ErrConnectionClosed}, Delay: FailLatency}
		return
	}
	c.reply <- Reply{ZK: rep}
}

// Request is called by the zk shim for every client operation.
func (c *ZKClient) Request(op, path string, data []byte, version, flags int32) ZKReply {
	w := c.w
	req := &ZKRequest{Op: op, Path: path, Data: data, Version: version, Flags: flags, Client: c}
	call := &Call{Proc: c.Proc, Kind: "zk", Target: path, Op: op, Mut: zkMutating(op), ZKReq: req}
	r := w.Gate(call)
	if r.Err != nil && r.ZK.Err == nil {
		r.ZK.Err = ErrConnectionClosed
	}
	return r.ZK
}

// Tree helpers for drivers ----------------------------------------------------------------

// Put writes a znode directly (world construction), creating parents.
func (z *ZKServer) Put(path string, data string) {
	parts := strings.Split(strings.Trim(path, "/"), "/")
	cur := ""
	for _, p := range parts {
		cur += "/" + p
		if z.Nodes[cur] == nil {
			z.Nodes[cur] = &znode{}
		}
	}
	n := z.Nodes[path]
	n.Data = []byte(data)
	n.Version++
}

func (z *ZKServer) Del(path string) {
	for p := range z.Nodes {
		if p == path || strings.HasPrefix(p, path+"/") {
			delete(z.Nodes, p)
		}
	}
}

func (z *ZKServer) Get(path string) (string, bool) {
	n := z.Nodes[path]
	if n == nil {
		return "", false
	}
	return string(n.Data), true
}

func (z *ZKServer) Exists(path string) bool { return z.Nodes[path] != nil }

func (z *ZKServer) Owner(path string) int64 {
	if n := z.Nodes[path]; n != nil {
		return n.Eph
	}
	return 0
}

func (z *ZKServer) Children(path string) []string { return z.children(path) }

// Dump renders the tree canonically; drop lists path prefixes to omit.
func (z *ZKServer) Dump(filter func(path string, data []byte) (string, bool)) string {
	var ps []string
	for p := range z.Nodes {
		ps = append(ps, p)
	}
	sort.Strings(ps)
	var b strings.Builder
	for _, p := range ps {
		n := z.Nodes[p]
		d := string(n.Data)
		if filter != nil {
			var ok bool
			d, ok = filter(p, n.Data)
			if !ok {
				continue
			}
		}
		eph := ""
		if n.Eph != 0 {
			eph = fmt.Sprintf(" eph=%s", z.ownerName(n.Eph))
		}
		fmt.Fprintf(&b, "%s = %s%s\n", p, d, eph)
	}
	return b.String()
}

func (z *ZKServer) ownerName(id int64) string {
	if s := z.Sessions[id]; s != nil {
		return s.Client.Proc
	}
	return fmt.Sprint(id)
}

// NodeVersion returns the data version of a znode (-1 if absent).
func (z *ZKServer) NodeVersion(path string) int32 {
	if n := z.Nodes[path]; n != nil {
		return n.Version
	}
	return -1
}

// SetPid overrides the pid of a virtual process (pid reuse scenarios).
func (w *World) SetPid(proc string, pid int) {
	w.mu.Lock()
	if p := w.Procs[proc]; p != nil {
		p.Pid = pid
	}
	w.mu.Unlock()
}
