// Package vt is the worker side of the check protocol: a check is a function that enumerates
// cases, runs each against the real code and reports into a Run; the orchestrator (bin/vcheck)
// shards workers, merges their results, applies the known-findings file and writes evidence.
package vt

import (
	"crypto/sha256"
	"encoding/hex"
	"encoding/json"
	"fmt"
	"os"
	"runtime/debug"
	"sort"
	"strconv"
	"strings"
	"testing"
	"time"
)

type Violation struct {
	Signature string `json:"signature"` // property/clause/breaker
	Detail    string `json:"detail"`
	Case      any    `json:"case"` // replayable description of the failing case
	Count     int    `json:"count"`
}

type Result struct {
	Property    string         `json:"property"`
	Tier        string         `json:"tier"`
	Shard       int            `json:"shard"`
	NShards     int            `json:"nshards"`
	Evaluations int            `json:"evaluations"`
	States      int            `json:"states"`
	Transitions int            `json:"transitions"`
	Validated   int            `json:"traces_validated_against_impl"`
	Exhaustive  bool           `json:"exhaustive"`
	Caps        []string       `json:"caps"`
	Violations  []*Violation   `json:"violations"`
	Samples     []any          `json:"samples"`
	Counters    map[string]int `json:"counters"`
	Outcomes    map[string]int `json:"outcomes"`
	Distinct    []string       `json:"distinct"`
	DistinctN   int            `json:"distinct_n"`
	StateHashes []string       `json:"state_hashes"`
	Notes       []string       `json:"notes"`
	WallS       float64        `json:"wall_s"`
	Done        bool           `json:"done"`
	Bounds      map[string]any `json:"bounds"`
	ReplayLog   []string       `json:"replay_log,omitempty"`
}

type Run struct {
	T        *testing.T
	R        *Result
	Tier     string
	Shard    int
	NShards  int
	Seed     int
	Replay   json.RawMessage // non-nil: run only this case
	Deadline time.Time
	start    time.Time
	distinct map[string]bool
	states   map[string]bool
	vio      map[string]*Violation
	caseN    int
	crumb    string
	crumbF   *os.File
	crumbLen int
	resume   string
}

func (r *Run) Quick() bool    { return r.Tier != "thorough" }
func (r *Run) Thorough() bool { return r.Tier == "thorough" }

// Mine shards cases: the i-th case belongs to exactly one shard.
func (r *Run) Mine(i int) bool { return r.NShards <= 1 || i%r.NShards == r.Shard }

// Expired reports that the internal deadline has passed; the check must stop enumerating,
// record the cap and return (the run then reports exhaustive=false and still exits 0).
func (r *Run) Expired() bool {
	if !r.Deadline.IsZero() && time.Now().After(r.Deadline) {
		r.Cap("internal deadline reached")
		return true
	}
	return false
}

func (r *Run) Cap(s string) {
	for _, c := range r.R.Caps {
		if c == s {
			return
		}
	}
	r.R.Caps = append(r.R.Caps, s)
	r.R.Exhaustive = false
}

func (r *Run) Eval()                 { r.R.Evaluations++ }
func (r *Run) Count(k string)        { r.R.Counters[k]++ }
func (r *Run) Add(k string, n int)   { r.R.Counters[k] += n }
func (r *Run) Outcome(k string)      { r.R.Outcomes[k]++ }
func (r *Run) Note(s string)         { r.R.Notes = append(r.R.Notes, s) }
func (r *Run) Bound(k string, v any) { r.R.Bounds[k] = v }

func h12(s string) string {
	h := sha256.Sum256([]byte(s))
	return hex.EncodeToString(h[:6])
}

// Nontrivial records a distinct non-trivial case by key.
func (r *Run) Nontrivial(key string) {
	k := h12(key)
	if !r.distinct[k] {
		r.distinct[k] = true
	}
}

// State records a visited state (by canonical text); returns true if it is new.
func (r *Run) State(canon string) bool {
	k := h12(canon)
	if r.states[k] {
		return false
	}
	r.states[k] = true
	return true
}

func (r *Run) Transition() { r.R.Transitions++; r.R.Validated++ }

func (r *Run) Sample(x any) {
	if len(r.R.Samples) < 4 {
		r.R.Samples = append(r.R.Samples, x)
	}
}

// Violate reports a violation; only the first case per signature is kept (the count grows).
func (r *Run) Violate(signature, detail string, c any) {
	if v := r.vio[signature]; v != nil {
		v.Count++
		return
	}
	v := &Violation{Signature: signature, Detail: detail, Case: c, Count: 1}
	r.vio[signature] = v
	r.R.Violations = append(r.R.Violations, v)
	// sidecar: a violation found before something kills the process (a fatal runtime error, goroutines
	// that can never finish at the end of a bubble) is not lost with the worker
	if out := os.Getenv("VERIF_OUT"); out != "" {
		if f, err := os.OpenFile(out+".viol", os.O_CREATE|os.O_WRONLY|os.O_APPEND, 0o644); err == nil {
			b, _ := json.Marshal(v)
			_, _ = f.Write(append(b, '\n'))
			_ = f.Close()
		}
	}
}

// Skip supports restarting a worker after a case killed the process (a panic in a goroutine no
// recover can catch): with VERIF_RESUME_AFTER set to that case, cases are skipped up to and
// including it.
func (r *Run) Skip(c any) bool {
	if r.resume == "" {
		return false
	}
	b, _ := json.Marshal(c)
	if string(b) == r.resume {
		r.resume = ""
	}
	return true
}

// Crumb records the case about to run, so that a crash of the worker can be attributed.
func (r *Run) Crumb(c any) {
	if r.crumb == "" {
		return
	}
	b, _ := json.Marshal(c)
	// one open handle, rewritten in place: cheap enough to leave a crumb before every case of a
	// multi-million-case grid (a fatal runtime error - stack overflow, concurrent map write - kills
	// the worker without running any deferred code)
	if r.crumbF == nil {
		f, err := os.OpenFile(r.crumb, os.O_CREATE|os.O_RDWR|os.O_TRUNC, 0o644)
		if err != nil {
			return
		}
		r.crumbF = f
	}
	_, _ = r.crumbF.WriteAt(b, 0)
	if len(b) < r.crumbLen {
		_ = r.crumbF.Truncate(int64(len(b)))
	}
	r.crumbLen = len(b)
}

func (r *Run) Logf(f string, a ...any) {
	if r.Replay != nil {
		r.R.ReplayLog = append(r.R.ReplayLog, fmt.Sprintf(f, a...))
	}
}

func (r *Run) finish(out string) {
	r.R.WallS = time.Since(r.start).Seconds()
	r.R.DistinctN = len(r.distinct)
	if len(r.distinct) <= 300000 {
		for k := range r.distinct {
			r.R.Distinct = append(r.R.Distinct, k)
		}
		sort.Strings(r.R.Distinct)
	}
	r.R.States = len(r.states)
	if len(r.states) <= 300000 {
		for k := range r.states {
			r.R.StateHashes = append(r.R.StateHashes, k)
		}
		sort.Strings(r.R.StateHashes)
	}
	r.R.Done = true
	b, _ := json.Marshal(r.R)
	if out != "" {
		if err := os.WriteFile(out, b, 0o644); err != nil {
			r.T.Fatalf("write result: %v", err)
		}
	} else {
		fmt.Println(string(b))
	}
}

// Abort ends the worker at once after recording why (used when a call under test does not
// return: its goroutine cannot be stopped and would starve the single P for the rest of the run).
func (r *Run) Abort(why string) {
	r.Cap(why)
	r.finish(os.Getenv("VERIF_OUT"))
	os.Exit(0)
}

type Check func(r *Run)

// Main dispatches to the check selected by VERIF_PROP. Without VERIF_PROP it does nothing, so
// the repository's own `go test` on the transformed tree is unaffected.
func Main(t *testing.T, checks map[string]Check) {
	prop := os.Getenv("VERIF_PROP")
	if prop == "" {
		t.Skip("VERIF_PROP not set")
	}
	chk := checks[prop]
	if chk == nil {
		if out := os.Getenv("VERIF_OUT"); out != "" {
			_ = os.WriteFile(out, []byte(`{"done":true,"skipped":true}`), 0o644)
		}
		t.Skip("no check for " + prop + " in this package")
	}
	atoi := func(k string, d int) int {
		if v, err := strconv.Atoi(os.Getenv(k)); err == nil {
			return v
		}
		return d
	}
	tier := os.Getenv("VERIF_TIER")
	if tier == "" {
		tier = "quick"
	}
	// runaway recursion in the code under test must die quickly, not after eating 1 GB per worker
	debug.SetMaxStack(64 << 20)
	r := &Run{T: t, Tier: tier, Shard: atoi("VERIF_SHARD", 0), NShards: atoi("VERIF_NSHARDS", 1), Seed: atoi("VERIF_SEED", 0),
		start: time.Now(), distinct: map[string]bool{}, states: map[string]bool{}, vio: map[string]*Violation{}, crumb: os.Getenv("VERIF_CRUMB")}
	r.R = &Result{Property: prop, Tier: tier, Shard: r.Shard, NShards: r.NShards, Exhaustive: true,
		Counters: map[string]int{}, Outcomes: map[string]int{}, Bounds: map[string]any{}}
	if f := os.Getenv("VERIF_RESUME_AFTER"); f != "" {
		if b, err := os.ReadFile(f); err == nil {
			var v any
			if json.Unmarshal(b, &v) == nil {
				nb, _ := json.Marshal(v)
				_ = nb
			}
			r.resume = strings.TrimSpace(string(b))
		}
	}
	if d := atoi("VERIF_DEADLINE_S", 0); d > 0 {
		r.Deadline = r.start.Add(time.Duration(d) * time.Second)
	}
	if f := os.Getenv("VERIF_REPLAY"); f != "" {
		b, err := os.ReadFile(f)
		if err != nil {
			t.Fatalf("replay file: %v", err)
		}
		var wrap struct {
			Case json.RawMessage `json:"case"`
		}
		if err := json.Unmarshal(b, &wrap); err != nil || wrap.Case == nil {
			t.Fatalf("replay file has no case: %v", err)
		}
		r.Replay = wrap.Case
	}
	chk(r)
	r.finish(os.Getenv("VERIF_OUT"))
}

// ReplayInto decodes the replay case into v; returns false when not replaying.
func (r *Run) ReplayInto(v any) bool {
	if r.Replay == nil {
		return false
	}
	if err := json.Unmarshal(r.Replay, v); err != nil {
		r.T.Fatalf("bad replay case: %v", err)
	}
	return true
}
