// Package vsync replaces "sync" in the repository's packages when they are built for
// exploration. testing/synctest does not treat a goroutine blocked on a sync.Mutex as durably
// blocked, so a goroutine parked at a gate while holding a lock another goroutine wants would
// freeze the fake clock. A one-slot channel has the same semantics and blocks durably.
package vsync

import "sync"

type (
	Map       = sync.Map
	WaitGroup = sync.WaitGroup
	Pool      = sync.Pool
	Locker    = sync.Locker
)

// Mutex is a mutual exclusion lock built on a one-slot channel. The zero value is unlocked.
type Mutex struct {
	once sync.Once
	ch   chan struct{}
}

func (m *Mutex) init() {
	m.once.Do(func() { m.ch = make(chan struct{}, 1) })
}

func (m *Mutex) Lock() {
	m.init()
	m.ch <- struct{}{}
}

func (m *Mutex) TryLock() bool {
	m.init()
	select {
	case m.ch <- struct{}{}:
		return true
	default:
		return false
	}
}

func (m *Mutex) Unlock() {
	m.init()
	select {
	case <-m.ch:
	default:
		panic("vsync: unlock of unlocked mutex")
	}
}

// RWMutex is implemented as a plain mutex (writers and readers exclude each other); this is a
// legal refinement of sync.RWMutex semantics.
type RWMutex struct{ m Mutex }

func (rw *RWMutex) Lock()    { rw.m.Lock() }
func (rw *RWMutex) Unlock()  { rw.m.Unlock() }
func (rw *RWMutex) RLock()   { rw.m.Lock() }
func (rw *RWMutex) RUnlock() { rw.m.Unlock() }

// Once mirrors sync.Once on top of Mutex.
type Once struct {
	m    Mutex
	done bool
}

func (o *Once) Do(f func()) {
	o.m.Lock()
	defer o.m.Unlock()
	if o.done {
		return
	}
	defer func() { o.done = true }()
	f()
}
