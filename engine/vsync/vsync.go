// Package vsync replaces "sync" in the repository's packages when they are built for
// exploration. testing/synctest does not treat a goroutine blocked on a sync.Mutex as durably
// blocked, so a goroutine parked at a gate while holding a lock another goroutine wants would
// freeze the fake clock. A one-slot channel has the same semantics and blocks durably.
package vsync

import "sync"

type (
	Map       = sync.Map
	WaitGroup = sync.WaitGroup
	Pool      = sync.Pool
	Locker    = sync.Locker
)

// Mutex is a mutual exclusion lock built on a one-slot channel. The zero value is unlocked.
type Mutex struct {
	once sync.Once
	ch   chan struct{}
}

func (m *Mutex) init() {
	m.once.Do(func() { m.ch = make(chan struct{}, 1) })
}

func (m *Mutex) Lock() {
	m.init()
	m.ch <- struct{}{}
}

func (m *Mutex) TryLock() bool {
	m.init()
	select {
	case m.ch <- struct{}{}:
		return true
	default:
		return false
	}
}

func (m *Mutex) Unlock() {
	m.init()
	select {
	case <-m.ch:
	default:
		panic("vsync: unlock of unlocked mutex")
	}
}

// RWMutex: readers-preference lock on top of Mutex (several readers, recursive read locking by
// one goroutine and read-unlock from another goroutine behave as with sync.RWMutex; a waiting
// writer does not block new readers, which sync.RWMutex does not promise either way).
type RWMutex struct {
	w       Mutex // held by the writer, or by the group of readers
	mu      Mutex // guards readers
	readers int
}

func (rw *RWMutex) Lock()   { rw.w.Lock() }
func (rw *RWMutex) Unlock() { rw.w.Unlock() }

func (rw *RWMutex) TryLock() bool { return rw.w.TryLock() }

func (rw *RWMutex) RLock() {
	rw.mu.Lock()
	rw.readers++
	if rw.readers == 1 {
		rw.w.Lock()
	}
	rw.mu.Unlock()
}

func (rw *RWMutex) TryRLock() bool {
	if !rw.mu.TryLock() {
		return false
	}
	defer rw.mu.Unlock()
	if rw.readers == 0 && !rw.w.TryLock() {
		return false
	}
	rw.readers++
	return true
}

func (rw *RWMutex) RUnlock() {
	rw.mu.Lock()
	rw.readers--
	if rw.readers < 0 {
		panic("vsync: RUnlock of unlocked RWMutex")
	}
	if rw.readers == 0 {
		rw.w.Unlock()
	}
	rw.mu.Unlock()
}

type rlocker RWMutex

func (r *rlocker) Lock()   { (*RWMutex)(r).RLock() }
func (r *rlocker) Unlock() { (*RWMutex)(r).RUnlock() }

func (rw *RWMutex) RLocker() Locker { return (*rlocker)(rw) }

// Cond mirrors sync.Cond with channels (a waiter blocks durably).
type Cond struct {
	L       Locker
	mu      Mutex
	waiters []chan struct{}
}

func NewCond(l Locker) *Cond { return &Cond{L: l} }

func (c *Cond) Wait() {
	ch := make(chan struct{})
	c.mu.Lock()
	c.waiters = append(c.waiters, ch)
	c.mu.Unlock()
	c.L.Unlock()
	<-ch
	c.L.Lock()
}

func (c *Cond) Signal() {
	c.mu.Lock()
	if len(c.waiters) > 0 {
		close(c.waiters[0])
		c.waiters = c.waiters[1:]
	}
	c.mu.Unlock()
}

func (c *Cond) Broadcast() {
	c.mu.Lock()
	for _, ch := range c.waiters {
		close(ch)
	}
	c.waiters = nil
	c.mu.Unlock()
}

// Once mirrors sync.Once on top of Mutex.
type Once struct {
	m    Mutex
	done bool
}

func (o *Once) Do(f func()) {
	o.m.Lock()
	defer o.m.Unlock()
	if o.done {
		return
	}
	defer func() { o.done = true }()
	f()
}

// OnceFunc, OnceValue and OnceValues mirror the sync functions of the same names (a panic in f is
// re-raised on every call, as the originals do).
func OnceFunc(f func()) func() {
	var once Once
	var valid bool
	var p any
	g := func() {
		defer func() {
			p = recover()
			if !valid {
				panic(p)
			}
		}()
		f()
		f = nil
		valid = true
	}
	return func() {
		once.Do(g)
		if !valid {
			panic(p)
		}
	}
}

func OnceValue[T any](f func() T) func() T {
	var once Once
	var valid bool
	var p any
	var result T
	g := func() {
		defer func() {
			p = recover()
			if !valid {
				panic(p)
			}
		}()
		result = f()
		f = nil
		valid = true
	}
	return func() T {
		once.Do(g)
		if !valid {
			panic(p)
		}
		return result
	}
}

func OnceValues[T1, T2 any](f func() (T1, T2)) func() (T1, T2) {
	var once Once
	var valid bool
	var p any
	var r1 T1
	var r2 T2
	g := func() {
		defer func() {
			p = recover()
			if !valid {
				panic(p)
			}
		}()
		r1, r2 = f()
		f = nil
		valid = true
	}
	return func() (T1, T2) {
		once.Do(g)
		if !valid {
			panic(p)
		}
		return r1, r2
	}
}
