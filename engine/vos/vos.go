// Package vos replaces "os" in the few repository files that touch per-host state: marker
// files, test disk-usage files and the pid. Paths under /vfs/ live in the world's in-memory
// file system; everything else passes through to the real os package.
package vos

import (
	"io/fs"
	"os"
	"strings"
	"syscall"
	"time"

	"github.com/yandex/mysync/internal/verif/sim"
)

type (
	File     = os.File
	FileInfo = os.FileInfo
	FileMode = os.FileMode
	Signal   = os.Signal
)

var (
	Stderr = os.Stderr
	Stdout = os.Stdout
	Stdin  = os.Stdin

	ErrNotExist = os.ErrNotExist
)

const (
	O_WRONLY = os.O_WRONLY
	O_CREATE = os.O_CREATE
	O_APPEND = os.O_APPEND
	O_RDONLY = os.O_RDONLY
)

func virtual(p string) bool { return strings.HasPrefix(p, "/vfs/") }

func notExist(op, p string) error { return &fs.PathError{Op: op, Path: p, Err: syscall.ENOENT} }

// GetpidOf returns the pid of the virtual process named by a zookeeper host list.
func GetpidOf(hosts []string) int {
	if len(hosts) == 0 || sim.Cur == nil {
		return os.Getpid()
	}
	return sim.Cur.PidOf(hosts[0])
}

func Getpid() int { return os.Getpid() }

func Hostname() (string, error) { return os.Hostname() }

func LookupEnv(k string) (string, bool) { return os.LookupEnv(k) }

func IsNotExist(err error) bool { return os.IsNotExist(err) }

func ReadFile(p string) ([]byte, error) {
	if !virtual(p) {
		return os.ReadFile(p)
	}
	d, ok := sim.Cur.VFSGet(p)
	if !ok {
		return nil, notExist("open", p)
	}
	return d, nil
}

func WriteFile(p string, data []byte, perm os.FileMode) error {
	if !virtual(p) {
		return os.WriteFile(p, data, perm)
	}
	sim.Cur.VFSPut(p, data)
	return nil
}

func Remove(p string) error {
	if !virtual(p) {
		return os.Remove(p)
	}
	if !sim.Cur.VFSDel(p) {
		return notExist("remove", p)
	}
	return nil
}

type fileInfo struct {
	name string
	size int64
}

func (f fileInfo) Name() string       { return f.name }
func (f fileInfo) Size() int64        { return f.size }
func (f fileInfo) Mode() fs.FileMode  { return 0o644 }
func (f fileInfo) ModTime() time.Time { return time.Time{} }
func (f fileInfo) IsDir() bool        { return false }
func (f fileInfo) Sys() any           { return nil }

func Stat(p string) (os.FileInfo, error) {
	if !virtual(p) {
		return os.Stat(p)
	}
	d, ok := sim.Cur.VFSGet(p)
	if !ok {
		return nil, notExist("stat", p)
	}
	return fileInfo{p, int64(len(d))}, nil
}

func Open(p string) (*os.File, error) {
	if !virtual(p) {
		return os.Open(p)
	}
	return nil, notExist("open", p)
}

func OpenFile(p string, flag int, perm os.FileMode) (*os.File, error) {
	if !virtual(p) {
		return os.OpenFile(p, flag, perm)
	}
	return nil, notExist("open", p)
}
