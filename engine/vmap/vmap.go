// Package vmap owns Go's map iteration order: every `for k, v := range m` over a map in the
// repository is rewritten by the overlay generator to iterate over vmap.Keys(m). The order is
// an input selected by the harness (ascending by default, or the Perm-th permutation of the
// sorted keys), never noise.
package vmap

import (
	"fmt"
	"reflect"
	"sort"
)

// Perm selects the permutation of the sorted key list that Keys returns: 0 = ascending,
// otherwise the (Perm mod n!)-th permutation in Lehmer order for a map with n keys.
var Perm int

// Calls counts Keys invocations (coverage counter).
var Calls int

func less(a, b reflect.Value) bool {
	switch a.Kind() {
	case reflect.String:
		return a.String() < b.String()
	case reflect.Int, reflect.Int8, reflect.Int16, reflect.Int32, reflect.Int64:
		return a.Int() < b.Int()
	case reflect.Uint, reflect.Uint8, reflect.Uint16, reflect.Uint32, reflect.Uint64:
		return a.Uint() < b.Uint()
	case reflect.Array:
		for i := 0; i < a.Len(); i++ {
			if less(a.Index(i), b.Index(i)) {
				return true
			}
			if less(b.Index(i), a.Index(i)) {
				return false
			}
		}
		return false
	}
	return fmt.Sprint(a.Interface()) < fmt.Sprint(b.Interface())
}

// Keys returns the keys of m in the order selected by Perm.
func Keys[K comparable, V any](m map[K]V) []K {
	Calls++
	keys := make([]K, 0, len(m))
	for k := range m {
		keys = append(keys, k)
	}
	if len(keys) < 2 {
		return keys
	}
	if s, ok := any(keys).([]string); ok {
		sort.Strings(s)
	} else {
		sort.Slice(keys, func(i, j int) bool { return less(reflect.ValueOf(keys[i]), reflect.ValueOf(keys[j])) })
	}
	if Perm == 0 {
		return keys
	}
	// Lehmer decode
	n := len(keys)
	fact := 1
	for i := 2; i <= n; i++ {
		fact *= i
		if fact > 1<<20 {
			break
		}
	}
	p := Perm % fact
	rest := append([]K(nil), keys...)
	out := make([]K, 0, n)
	for i := n; i >= 1; i-- {
		f := 1
		for j := 2; j < i; j++ {
			f *= j
		}
		idx := 0
		if f > 0 {
			idx = (p / f) % i
			p = p % f
		}
		out = append(out, rest[idx])
		rest = append(rest[:idx], rest[idx+1:]...)
	}
	return out
}
