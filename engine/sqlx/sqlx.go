// Package sqlx replaces github.com/jmoiron/sqlx in internal/mysql: identical types, but Open
// returns a handle whose database/sql driver is the fake MySQL server of the world. Everything
// above the driver (sqlx named queries, database/sql pooling, context deadlines, StructScan into
// the repository's structs) is real.
package sqlx

import (
	"context"
	"database/sql"
	"database/sql/driver"
	"errors"
	"github.com/yandex/mysync/internal/verif/emu"
	"io"
	"strings"

	real "github.com/jmoiron/sqlx"

	"github.com/yandex/mysync/internal/verif/sim"
)

type (
	DB        = real.DB
	Rows      = real.Rows
	Row       = real.Row
	Tx        = real.Tx
	Stmt      = real.Stmt
	NamedStmt = real.NamedStmt
)

func In(query string, args ...interface{}) (string, []interface{}, error) {
	return real.In(query, args...)
}

func Named(query string, arg interface{}) (string, []interface{}, error) {
	return real.Named(query, arg)
}

// parseDSN extracts the calling virtual process (the user name) and the target host from
// "user:password@tcp(host:port)/db?...".
func parseDSN(dsn string) (proc, host string) {
	if i := strings.Index(dsn, ":"); i >= 0 {
		proc = dsn[:i]
	}
	if i := strings.Index(dsn, "@tcp("); i >= 0 {
		rest := dsn[i+5:]
		if j := strings.Index(rest, ")"); j >= 0 {
			addr := rest[:j]
			if k := strings.LastIndex(addr, ":"); k >= 0 {
				addr = addr[:k]
			}
			host = strings.Trim(addr, "[]")
		}
	}
	return
}

func Open(driverName, dsn string) (*DB, error) {
	proc, host := parseDSN(dsn)
	w := sim.Cur
	if w == nil {
		return nil, errors.New("verif sqlx: no world")
	}
	w.DBOpened(proc)
	c := &connector{w: w, proc: proc, host: host}
	db := sql.OpenDB(c)
	handlesMu.Lock()
	handles = append(handles, db)
	handlesMu.Unlock()
	return real.NewDb(db, driverName), nil
}

var handles []*sql.DB
var handlesMu emu.Mutex

// CloseAll closes every handle opened since the last call (harness teardown: a process that
// exits takes its connection-opener goroutines with it; a bubble needs them gone explicitly).
func CloseAll() {
	handlesMu.Lock()
	hs := handles
	handles = nil
	handlesMu.Unlock()
	for _, db := range hs {
		_ = db.Close()
	}
}

type connector struct {
	w      *sim.World
	proc   string
	host   string
	closed bool
}

func (c *connector) Connect(ctx context.Context) (driver.Conn, error) {
	return &conn{c: c}, nil
}

func (c *connector) Driver() driver.Driver { return drv{} }

func (c *connector) Close() error {
	if !c.closed {
		c.closed = true
		c.w.DBClosed(c.proc)
	}
	return nil
}

type drv struct{}

func (drv) Open(name string) (driver.Conn, error) {
	return nil, errors.New("verif sqlx: use connector")
}

type conn struct {
	c *connector
}

func (c *conn) Prepare(query string) (driver.Stmt, error) {
	return nil, errors.New("verif sqlx: prepared statements are not used by mysync")
}
func (c *conn) Close() error { return nil }
func (c *conn) Begin() (driver.Tx, error) {
	return nil, errors.New("verif sqlx: transactions are not used by mysync")
}

func (c *conn) call(ctx context.Context, query string, args []driver.NamedValue) sim.Reply {
	return c.c.w.SQLCall(ctx, c.c.proc, c.c.host, query, args)
}

func (c *conn) QueryContext(ctx context.Context, query string, args []driver.NamedValue) (driver.Rows, error) {
	r := c.call(ctx, query, args)
	if r.Err != nil {
		return nil, r.Err
	}
	rs := r.Rows
	if rs == nil {
		rs = &sim.RowSet{}
	}
	return &rows{rs: rs}, nil
}

func (c *conn) ExecContext(ctx context.Context, query string, args []driver.NamedValue) (driver.Result, error) {
	r := c.call(ctx, query, args)
	if r.Err != nil {
		return nil, r.Err
	}
	return driver.RowsAffected(0), nil
}

func (c *conn) Ping(ctx context.Context) error { return nil }

func (c *conn) ResetSession(ctx context.Context) error { return nil }

func (c *conn) IsValid() bool { return true }

func (c *conn) CheckNamedValue(nv *driver.NamedValue) error {
	switch v := nv.Value.(type) {
	case int:
		nv.Value = int64(v)
	case int32:
		nv.Value = int64(v)
	}
	return nil
}

type rows struct {
	rs *sim.RowSet
	i  int
}

func (r *rows) Columns() []string { return r.rs.Cols }
func (r *rows) Close() error      { return nil }
func (r *rows) Next(dest []driver.Value) error {
	if r.i >= len(r.rs.Rows) {
		return io.EOF
	}
	copy(dest, r.rs.Rows[r.i])
	r.i++
	return nil
}
