#!/bin/sh
# Build the framework from files on disk only (offline).
set -e
cd "$(dirname "$0")"
exec ./bin/vcheck setup
