//go:build verif

package app

// C05 Automatic failover is filed only when every gate is open. Real stateManager() iterations of
// a manager on h2 over constructed worlds (grid) and over histories of health observations with
// time advances and manager hand-overs. Oracle: creation of `switch` with cause auto implies
// the reference predicate transcribed from the statement; suspicious-master iterations change
// nothing.

import (
	"encoding/json"
	"fmt"
	"time"

	nodestate "github.com/yandex/mysync/internal/app/node_state"
	"github.com/yandex/mysync/internal/verif/sim"
	"github.com/yandex/mysync/internal/verif/vt"
)

func init() { verifChecks["C05"] = checkC05 }

const (
	hOK = iota
	hAbsent
	hPingFailed
	hFSRO
	hCrash
	hPingFailedCrash // ping failed AND the (per-process cached) crash-recovery flag is set
)

var c05HealthNames = []string{"ok", "absent", "ping-failed", "fs-readonly", "crash-recovered", "ping-failed+crash-recovered"}

const (
	mNone = iota
	mFullUnacked
	mFullAcked
	mLightUnacked
	mLightAcked
	mLightLeaving
)

const (
	pNone = iota
	pManual
	pAuto
)

const (
	rRunning = iota
	rStopped
	rDead
	// answers the ping, but its replication status cannot be read (the status query fails): the manager
	// cannot tell what it is, so it is neither a replicating nor an alive replica for the gates
	rPartial
)

const (
	lsNone = iota
	lsAutoRecent
	lsAutoOld
	lsManualRecent
	lsMalformed
	lsAutoRunning // auto, no result yet
)

type c05Tick struct {
	Advance  int  `json:"advance_s"`
	Health   int  `json:"master_health"`
	Handover bool `json:"handover_before"`
}

type c05Case struct {
	Failover   bool `json:"failover"`
	Resetup    bool `json:"resetup_crashed_hosts"`
	Delay      int  `json:"failover_delay_s"`
	Maint      int  `json:"maintenance"`
	Pending    int  `json:"pending_request"`
	MasterUp   bool `json:"manager_reaches_master"`
	MasterHung bool `json:"master_answers_nobody_but_replicas_stay_connected,omitempty"`
	// OperatorFilesAt >= 0: another initiator files a planned request (create-if-absent) just before
	// call number OperatorFilesAt of the first iteration
	OperatorFilesAt *int      `json:"operator_files_before_call,omitempty"`
	Reps            [2]int    `json:"replicas"`
	List            int       `json:"list_size"` // 0 absent, 1 [h1], 2 [h1,h2], 3 [h1,h2,h3]
	Last            int       `json:"last_switch"`
	Async           bool      `json:"async_config"`
	// W: the configured rpl_semi_sync_master_wait_for_slave_count (0: the default, 1)
	W int `json:"configured_wait_count,omitempty"`
	Ticks           []c05Tick `json:"ticks"`
}

func (c c05Case) String() string {
	return fmt.Sprintf("failover=%v resetup=%v delay=%ds maint=%d pending=%d masterUp=%v masterHung=%v replicas=%v list=%d last=%d async=%v wait_count=%d ticks=%+v",
		c.Failover, c.Resetup, c.Delay, c.Maint, c.Pending, c.MasterUp, c.MasterHung, c.Reps, c.List, c.Last, c.Async, max(c.W, 1), c.Ticks)
}

var c05FirstBase, c05FirstCalls int

func c05Run(r *vt.Run, c c05Case) {
	r.Eval()
	spec := Spec{HA: []string{"h1", "h2", "h3"}, Conf: map[string]string{"failover": fmt.Sprint(c.Failover), "resetup_crashed_hosts": fmt.Sprint(c.Resetup),
		"failover_delay": fmt.Sprintf("%ds", c.Delay), "failover_cooldown": "3600s"}}
	if c.Async {
		spec.Conf["semi_sync"] = "false"
	}
	if c.W > 0 {
		spec.Conf["rpl_semi_sync_master_wait_for_slave_count"] = fmt.Sprint(c.W)
	}
	Bubble(r.T, spec, func(h *H) {
		h.BuildConverged()
		w := h.W
		w.LogStmts = r.Replay != nil
		now := time.Now()
		m := w.Servers["h1"]
		if c.MasterHung {
			m.Hung = true // pings time out; the replicas' IO threads stay connected ("running")
		} else if !c.MasterUp {
			m.Up = false
		}
		for i, k := range c.Reps {
			s := w.Servers[fmt.Sprintf("h%d", i+2)]
			switch k {
			case rStopped:
				s.IORunning, s.SQLRunning = false, false
			case rDead:
				s.Up = false
			case rPartial:
				s.FailOps = map[string]uint16{"replica_status": 1205}
			}
		}
		switch c.List {
		case 0:
			w.ZK.Del(vns + "/active_nodes")
		case 1:
			w.ZK.Put(vns+"/active_nodes", `["h1"]`)
		case 2:
			w.ZK.Put(vns+"/active_nodes", `["h1","h2"]`)
		}
		ls := func(cause string, age time.Duration, result bool) string {
			s := Switchover{From: "h9", Cause: cause, InitiatedBy: "x", InitiatedAt: now.Add(-age - time.Minute), MasterTransition: FailoverTransition}
			if result {
				s.Result = &SwitchoverResult{Ok: true, FinishedAt: now.Add(-age)}
			}
			return jsonStr(s)
		}
		switch c.Last {
		case lsAutoRecent:
			w.ZK.Put(vns+"/last_switch", ls(CauseAuto, time.Minute, true))
		case lsAutoOld:
			w.ZK.Put(vns+"/last_switch", ls(CauseAuto, 2*time.Hour, true))
		case lsManualRecent:
			w.ZK.Put(vns+"/last_switch", ls(CauseManual, time.Minute, true))
		case lsMalformed:
			w.ZK.Put(vns+"/last_switch", `{"from": 12, garbage`)
		case lsAutoRunning:
			w.ZK.Put(vns+"/last_switch", ls(CauseAuto, time.Minute, false))
		}
		mt := func(mode MaintenanceMode, paused, leave bool) string {
			return jsonStr(Maintenance{InitiatedBy: "op", InitiatedAt: now, MySyncPaused: paused, ShouldLeave: leave, Mode: mode})
		}
		switch c.Maint {
		case mFullUnacked:
			w.ZK.Put(vns+"/maintenance", mt(FullMode, false, false))
		case mFullAcked:
			w.ZK.Put(vns+"/maintenance", mt(FullMode, true, false))
		case mLightUnacked:
			w.ZK.Put(vns+"/maintenance", mt(LightMode, false, false))
		case mLightAcked:
			w.ZK.Put(vns+"/maintenance", mt(LightMode, true, false))
		case mLightLeaving:
			w.ZK.Put(vns+"/maintenance", mt(LightMode, true, true))
		}
		switch c.Pending {
		case pManual:
			w.ZK.Put(vns+"/switch", jsonStr(Switchover{To: "h3", Cause: CauseManual, InitiatedBy: "op", InitiatedAt: now, MasterTransition: SwitchoverTransition}))
		case pAuto:
			w.ZK.Put(vns+"/switch", jsonStr(Switchover{From: "h1", Cause: CauseAuto, InitiatedBy: "h3", InitiatedAt: now, MasterTransition: FailoverTransition}))
		}
		filed := 0
		muts := 0
		var mutOps []string
		prevSwitch, _ := w.ZK.Get(vns + "/switch") // content of the request key before the call being applied
		ident := func(raw string) string {
			var s Switchover
			if raw == "" || json.Unmarshal([]byte(raw), &s) != nil {
				return ""
			}
			return fmt.Sprintf("%s/%s@%d %s>%s", s.Cause, s.InitiatedBy, s.InitiatedAt.UnixNano(), s.From, s.To)
		}
		w.OnApply = append(w.OnApply, func(ap *sim.Applied) {
			defer func() { prevSwitch, _ = w.ZK.Get(vns + "/switch") }()
			if ap.Call.Kind == "zk" && ap.Call.Target == vns+"/switch" && (ap.Call.Op == "create" || ap.Call.Op == "set") && ap.Effect {
				var s Switchover
				if json.Unmarshal(ap.Call.ZKReq.Data, &s) == nil && s.Cause == CauseAuto && ident(string(ap.Call.ZKReq.Data)) != ident(prevSwitch) {
					filed++ // a NEW automatic request appears in the key (however it is written)
					if prevSwitch != "" {
						r.Violate("C05/2-no-other-request", fmt.Sprintf("automatic failover written over the pending request %s; case %s", prevSwitch, c), c)
					}
				}
			}
			if ap.Call.Kind == "sql" && ap.Call.Mut {
				muts++
				mutOps = append(mutOps, ap.Call.Target+":"+ap.Call.Op)
			}
		})
		putHealth := func(kind int) {
			for _, host := range []string{"h2", "h3"} {
				s := w.Servers[host]
				st := &nodestate.NodeState{CheckBy: host, PingOk: s.Up, IsReadOnly: true}
				w.ZK.Put(vns+"/health/"+host, jsonStr(st))
			}
			st := &nodestate.NodeState{CheckBy: "h1", PingOk: true, IsMaster: true}
			switch kind {
			case hAbsent:
				w.ZK.Del(vns + "/health/h1")
				return
			case hPingFailed:
				st.PingOk = false
			case hFSRO:
				st.IsFileSystemReadonly = true
			case hCrash:
				st.DaemonState = &nodestate.DaemonState{StartTime: now, RecoveryTime: now.Add(time.Second), CrashRecovery: true}
			case hPingFailedCrash:
				st.PingOk = false
				st.DaemonState = &nodestate.DaemonState{StartTime: now, RecoveryTime: now.Add(time.Second), CrashRecovery: true}
			}
			w.ZK.Put(vns+"/health/h1", jsonStr(st))
		}
		a := h.Start("h2")
		var badSince time.Duration = -1
		for ti, tk := range c.Ticks {
			if tk.Advance > 0 {
				w.Advance(time.Duration(tk.Advance) * time.Second)
			}
			if tk.Handover {
				w.Crash(h.ID(a))
				for _, zc := range w.Procs[h.ID(a)].ZK {
					w.ZK.Expire(zc)
				}
				a = h.Start("h2")
				badSince = -1
			}
			putHealth(tk.Health)
			filed, muts, mutOps = 0, 0, nil
			start := w.Now()
			if ti == 0 {
				c05FirstBase = len(w.Trace)
				if c.OperatorFilesAt != nil {
					w.Plan[len(w.Trace)+*c.OperatorFilesAt] = sim.Deviation{Kind: sim.DevEnv}
					w.EnvHook = func(int) {
						if !w.ZK.Exists(vns + "/switch") {
							w.ZK.Put(vns+"/switch", jsonStr(Switchover{To: "h3", Cause: CauseManual, InitiatedBy: "operator", InitiatedAt: time.Now(), MasterTransition: SwitchoverTransition}))
							prevSwitch, _ = w.ZK.Get(vns + "/switch")
							r.Count("requests_filed_inside_the_iteration")
						}
					}
				}
			}
			h.Tick(a)
			if ti == 0 {
				c05FirstCalls = len(w.Trace) - c05FirstBase
			}
			end := w.Now()
			where := fmt.Sprintf("iteration %d of %s", ti, c)
			if len(w.Panics) > 0 || len(w.Unknown) > 0 {
				r.Violate("C05/0-engine", fmt.Sprintf("panics=%v unknown=%v in %s", w.Panics, w.Unknown, where), c)
				return
			}
			bad := tk.Health == hAbsent || tk.Health == hPingFailed || tk.Health == hFSRO || tk.Health == hPingFailedCrash
			exempt := tk.Health == hFSRO || tk.Health == hPingFailedCrash && c.Resetup // delay and replication gates not required
			if bad {
				if badSince < 0 {
					badSince = start
				}
			} else {
				badSince = -1
			}
			suspicious := !bad && !c.MasterUp
			if suspicious && c.Maint == mNone && c.Pending == pNone {
				r.Count("suspicious_iterations")
				if filed > 0 || muts > 0 {
					r.Violate("C05/8-suspicious-master-no-filing-no-repair", fmt.Sprintf("filed=%d statements=%v in %s", filed, mutOps, where), c)
				}
			}
			if filed == 0 {
				r.Outcome("not-filed")
				continue
			}
			r.Outcome("filed")
			r.Nontrivial(c.String())
			// reference predicate: every gate must be open
			fail := func(clause, why string) {
				r.Violate("C05/"+clause, "automatic failover filed although "+why+": "+where, c)
			}
			if !c.Failover {
				fail("1-failover-enabled", "automatic failover is disabled")
			}
			if c.Maint != mNone {
				fail("2-no-maintenance", "maintenance is active")
			}
			if c.Pending != pNone {
				fail("2-no-other-request", "another switch request is pending")
			}
			crashPath := tk.Health == hCrash && c.Resetup && c.MasterUp
			if !bad && !crashPath {
				fail("3-master-health-bad", "the master's health record is good (and no crash-recovery restart with resetup enabled)")
			}
			if bad && !exempt && c.Delay > 0 {
				// upper bound of the time the record has been bad for this manager
				if end-badSince < time.Duration(c.Delay)*time.Second {
					fail("3-failover-delay", fmt.Sprintf("the record has been bad for at most %v (delay %ds)", end-badSince, c.Delay))
				}
			}
			if bad && !exempt {
				running, others := 0, 2
				for i, k := range c.Reps {
					_ = i
					if k == rRunning && (c.MasterUp || c.MasterHung) {
						running++
					}
				}
				if running == others {
					fail("4-not-all-replicas-replicating", "every other HA node is still replicating")
				}
			}
			// quorum over the published list
			list := [][]string{nil, {"h1"}, {"h1", "h2"}, {"h1", "h2", "h3"}}[c.List]
			alive := 0
			for _, host := range list {
				if host == "h1" {
					continue
				}
				if k := c.Reps[int(host[1]-'2')]; k != rDead && k != rPartial {
					alive++
				}
			}
			if c.Async {
				if alive == 0 {
					fail("5-quorum", "no alive active replica")
				}
			} else {
				q := max(len(list)-min(len(list)/2, max(c.W, 1)), 1)
				if alive < q {
					fail("5-quorum", fmt.Sprintf("%d alive active replicas, quorum %d", alive, q))
				}
			}
			switch c.Last {
			case lsAutoRecent:
				fail("6-cooldown", "the last automatic failover finished a minute ago (cooldown 1 h)")
			case lsMalformed, lsAutoRunning:
				fail("6-cooldown", "the record of the last switch is unreadable / unfinished")
			}
			break // the filed request changes the world; later iterations belong to C06/C01
		}
		if r.Replay != nil {
			for _, l := range w.StmtLog {
				r.Logf("%s", l)
			}
		}
	})
}

func checkC05(r *vt.Run) {
	var rc c05Case
	if r.ReplayInto(&rc) {
		var lc c05LiveCase
		if r.ReplayInto(&lc) && lc.Live {
			c05LiveRun(r, lc)
		} else {
			c05Run(r, rc)
		}
		return
	}
	defer checkC05Live(r)
	idx := 0
	run := func(c c05Case) {
		idx++
		if !r.Mine(idx) {
			return
		}
		if idx%7919 == 3 {
			r.Sample(c)
		}
		r.Crumb(c)
		c05Run(r, c)
	}
	full := r.Thorough()
	r.Bound("full_product", full)
	for _, fo := range []bool{true, false} {
		for _, rs := range []bool{true, false} {
			for _, delay := range []int{0, 30} {
				for maint := mNone; maint <= mLightLeaving; maint++ {
					for pend := pNone; pend <= pAuto; pend++ {
						reduced := !full && (maint != mNone || pend != pNone)
						for health := hOK; health <= hPingFailedCrash; health++ {
							for ms := 0; ms < 3; ms++ {
								mup, mhung := ms == 0, ms == 2
								for r2 := rRunning; r2 <= rDead; r2++ {
									for r3 := rRunning; r3 <= rDead; r3++ {
										for list := 0; list <= 3; list++ {
											if reduced && list != 3 || mhung && !full && list != 3 {
												continue
											}
											for last := lsNone; last <= lsAutoRunning; last++ {
												if reduced && last != lsNone {
													continue
												}
												if idx%512 == 0 && r.Expired() {
													return
												}
												run(c05Case{Failover: fo, Resetup: rs, Delay: delay, Maint: maint, Pending: pend, MasterUp: mup, MasterHung: mhung,
													Reps: [2]int{r2, r3}, List: list, Last: last, Ticks: []c05Tick{{0, health, false}}})
											}
										}
									}
								}
							}
						}
					}
				}
			}
		}
	}
	// b = 1 environment deviation: another initiator files a request before every call of an iteration
	// that files an automatic failover
	for _, base := range []c05Case{
		{Failover: true, MasterUp: false, Reps: [2]int{rRunning, rRunning}, List: 3, Ticks: []c05Tick{{0, hPingFailed, false}}},
		{Failover: true, MasterUp: false, Reps: [2]int{rRunning, rStopped}, List: 3, Ticks: []c05Tick{{0, hAbsent, false}}},
		{Failover: true, MasterUp: true, Reps: [2]int{rRunning, rRunning}, List: 3, Ticks: []c05Tick{{0, hFSRO, false}}},
		{Failover: true, Resetup: true, MasterUp: true, Reps: [2]int{rRunning, rRunning}, List: 3, Ticks: []c05Tick{{0, hCrash, false}}},
	} {
		c05FirstCalls = 0
		c05Run(r, base)
		r.R.Evaluations--
		n := c05FirstCalls
		for at := 0; at < n; at++ {
			at := at
			cc := base
			cc.OperatorFilesAt = &at
			run(cc)
		}
	}
	// async configuration: quorum rule differs
	for health := hOK; health <= hCrash; health++ {
		for r2 := rRunning; r2 <= rDead; r2++ {
			for r3 := rRunning; r3 <= rDead; r3++ {
				for list := 0; list <= 3; list++ {
					for _, mup := range []bool{true, false} {
						run(c05Case{Failover: true, Resetup: true, Delay: 0, MasterUp: mup, Reps: [2]int{r2, r3}, List: list, Async: true, Ticks: []c05Tick{{0, health, false}}})
					}
				}
			}
		}
	}
	// a member whose replication status cannot be read (it answers the ping): every gate with it
	for health := hOK; health <= hCrash; health++ {
		for r2 := rRunning; r2 <= rPartial; r2++ {
			for r3 := rRunning; r3 <= rPartial; r3++ {
				if r2 != rPartial && r3 != rPartial {
					continue
				}
				for list := 0; list <= 3; list++ {
					for _, mup := range []int{0, 1, 2} {
						run(c05Case{Failover: true, Resetup: true, Delay: 0, MasterUp: mup == 1, MasterHung: mup == 2, Reps: [2]int{r2, r3}, List: list, Ticks: []c05Tick{{0, health, false}}})
					}
				}
			}
		}
	}
	// a configured semi-sync count above what the list allows: the quorum is computed from the
	// required count (capped at half the list), not from the configured one
	for health := hOK; health <= hCrash; health++ {
		for r2 := rRunning; r2 <= rDead; r2++ {
			for r3 := rRunning; r3 <= rDead; r3++ {
				for list := 0; list <= 3; list++ {
					for _, mup := range []bool{true, false} {
						run(c05Case{Failover: true, Resetup: true, Delay: 0, MasterUp: mup, Reps: [2]int{r2, r3}, List: list, W: 2, Ticks: []c05Tick{{0, health, false}}})
					}
				}
			}
		}
	}
	// histories of health observations: delay 30 s, all other gates open (master down, replicas cannot replicate)
	advs := []int{5, 27, 33}
	healths := []int{hPingFailed, hOK, hAbsent}
	nt := 3
	if full {
		nt = 4
	}
	r.Bound("history_length", nt)
	opts := len(advs) * len(healths) * 2
	total := 1
	for i := 0; i < nt-1; i++ {
		total *= opts
	}
	for _, h0 := range healths {
		for code := 0; code < total; code++ {
			ticks := []c05Tick{{0, h0, false}}
			x := code
			for i := 0; i < nt-1; i++ {
				o := x % opts
				x /= opts
				ticks = append(ticks, c05Tick{advs[o%len(advs)], healths[(o/len(advs))%len(healths)], o/(len(advs)*len(healths)) == 1})
			}
			if idx%128 == 0 && r.Expired() {
				return
			}
			run(c05Case{Failover: true, Resetup: false, Delay: 30, MasterUp: false, Reps: [2]int{rRunning, rRunning}, List: 3, Ticks: ticks})
		}
	}
}
