//go:build verif

package app

// C10 Repair converges to the canonical topology without changing the master. Grid of initial
// per-node states (flags, sources incl. an unregistered decoy server, thread states, semi-sync
// flags, extra transactions, stale masters) x master states x configurations; repeated real
// manager iterations with replication progress and cooldown advances until the horizon; monitors
// on every statement; final-state predicate on ground truth. Thorough adds one failing statement
// at every call of the first iterations.

import (
	"fmt"
	"strings"
	"time"

	"github.com/yandex/mysync/internal/verif/sim"
	"github.com/yandex/mysync/internal/verif/vmap"
	"github.com/yandex/mysync/internal/verif/vt"
)

func init() { verifChecks["C10"] = checkC10 }

const (
	srcMaster = iota
	srcOther
	srcDecoy
	srcNone // stale master
)

const (
	thBoth = iota
	thIOOff
	thSQLOff
	thStopped
	thIOError          // not permanent
	thSQLBroken        // 1146, permanent
	thSQLErrPersistent // 1032 on every apply: not "permanent" for mysync, but START REPLICA never cures it
	// the IO thread cannot connect (2003) for as long as the replica points anywhere but at the recorded
	// master (a dead or unwilling old source): START REPLICA alone never cures it, re-pointing does
	thIOErrUntilRepointed
)

type c10Node struct {
	RO      bool `json:"read_only"`
	Offline bool `json:"offline"`
	Source  int  `json:"source"`
	Threads int  `json:"threads"`
	SS      bool `json:"semi_sync_slave"`
	Exec    int  `json:"executed"` // 0 behind, 1 equal, 2 extra foreign transaction
}

type c10Case struct {
	Nodes       [2]c10Node `json:"nodes"`
	Master      int        `json:"master_state"` // 0 normal, 1 offline, 2 read-only, 3 semi-sync wrong
	SemiSync    bool       `json:"semi_sync"`
	Aggressive  bool       `json:"aggressive"`
	MaxAttempts int        `json:"max_attempts"`
	Perm        int        `json:"map_order"`
	Unlisted    bool       `json:"h2_not_in_published_list,omitempty"` // h2 was dropped from active_nodes earlier (e.g. down for long)
	// the manager runs on h3 and, after round 3, h3 is removed from the registry (`mysync host remove h3`)
	// while its mysync keeps the manager lock: from the next iteration on h3 is an unregistered host
	MgrHostRemoved bool           `json:"manager_host_removed_from_registry,omitempty"`
	Dev            *sim.Deviation `json:"deviation,omitempty"`
	// Retry != 0: a replica whose SQL thread fails on one event (thSQLErrPersistent) comes to that event
	// again only in the rounds whose bit is set; in the other rounds it looks healthy (threads running,
	// no error, executed set unchanged). 0: it fails again at once in every round.
	Retry  uint32 `json:"rounds_in_which_the_replica_meets_the_failing_event,omitempty"`
	Rounds int    `json:"rounds,omitempty"`
}

const c10Rounds = 14

func c10Run(r *vt.Run, c c10Case) (points []sim.Point) {
	r.Eval()
	spec := Spec{HA: []string{"h1", "h2", "h3"}, Conf: map[string]string{"failover": "false", "semi_sync": fmt.Sprint(c.SemiSync),
		"replication_repair_aggressive_mode": fmt.Sprint(c.Aggressive), "replication_repair_max_attempts": fmt.Sprint(c.MaxAttempts),
		"replication_repair_cooldown": "10s", "wait_start_replication_timeout": "2s"}}
	// violations are reported when the execution is over: the signature names the single injected
	// fault by kind and statement ("fault-free" without one), so that a recorded finding about one
	// failing statement never hides the same clause failing elsewhere
	type vio struct{ clause, detail string }
	var found []vio
	violate := func(clause, detail string) { found = append(found, vio{clause, detail}) }
	defer func() {
		suffix := "/fault-free"
		if c.Dev != nil {
			suffix = "/" + c.Dev.Kind.String() + "@?"
			if c.Dev.At < len(points) {
				suffix = "/" + c.Dev.Kind.String() + "@" + points[c.Dev.At].Kind + ":" + points[c.Dev.At].Op
			}
		}
		for _, v := range found {
			r.Violate("C10/"+v.clause+suffix, v.detail+fmt.Sprintf("; case %+v", c), c)
		}
	}()
	var noteErr func()
	Bubble(r.T, spec, func(h *H) {
		vmap.Perm = c.Perm
		h.BuildConverged()
		w := h.W
		w.LogStmts = r.Replay != nil
		m := w.Servers["h1"]
		m.Executed.Add(m.UUID, 4)
		decoy := w.AddServer("d9")
		decoy.Executed = m.Executed.Clone()
		for i, nd := range c.Nodes {
			host := fmt.Sprintf("h%d", i+2)
			other := fmt.Sprintf("h%d", 3-i)
			s := w.Servers[host]
			s.Executed.Add(m.UUID, 4)
			switch nd.Exec {
			case 0:
				s.Executed = sim.Range(m.UUID, 3)
			case 2:
				s.Executed.Add(sim.UUIDFor("foreign"), 1)
			}
			s.ReadOnly, s.SuperRO, s.Offline = nd.RO, nd.RO, nd.Offline
			s.SSSlave = nd.SS && c.SemiSync
			s.SSLatched = s.SSSlave
			switch nd.Source {
			case srcOther:
				s.Source = other
			case srcDecoy:
				s.Source = "d9"
			case srcNone:
				s.HasSource, s.Source, s.IORunning, s.SQLRunning = false, "", false, false
			}
			if s.HasSource {
				switch nd.Threads {
				case thIOOff:
					s.IORunning = false
				case thSQLOff:
					s.SQLRunning = false
				case thStopped:
					s.IORunning, s.SQLRunning = false, false
				case thIOError:
					s.IORunning, s.IOErrno, s.IOError = false, 1045, "Access denied"
				case thSQLBroken:
					s.SQLRunning, s.SQLErrno, s.SQLError, s.InjectSQLErrno = false, 1146, "Table doesn't exist", 1146
				case thSQLErrPersistent:
					s.SQLRunning, s.SQLErrno, s.SQLError, s.InjectSQLErrno = false, 1032, "Can't find record", 1032
				case thIOErrUntilRepointed:
					s.IORunning, s.IOErrno, s.IOError = false, 2003, "error connecting to source"
				}
			}
		}
		if !c.SemiSync {
			m.SSMaster = false
		}
		if c.Unlisted {
			w.ZK.Put(vns+"/active_nodes", `["h1","h3"]`)
		}
		switch c.Master {
		case 1:
			m.Offline = true
		case 2:
			m.ReadOnly, m.SuperRO = true, true
		case 3:
			m.SSMaster, m.WaitCount = !m.SSMaster, 2
		}
		// repair bookkeeping, from statements only. A START REPLICA sent to a replica that was in an
		// error state at the last health refresh is a repair attempt (a start of a merely stopped
		// replica is not); an episode ends when the replica's executed set moves.
		inErr := map[string]bool{}
		repairStarts := map[string]int{}
		resets := map[string]int{}
		episode := map[string]string{}
		lastAttempt := map[string]time.Duration{}
		noteErr = func() {
			for _, x := range spec.HA {
				s := w.Servers[x]
				inErr[x] = s.HasSource && (s.SQLErrno != 0 || s.IOErrno != 0)
			}
		}
		noteErr()
		w.OnApply = append(w.OnApply, func(ap *sim.Applied) {
			if ap.Call.Kind == "sql" && ap.Call.Target == "d9" {
				violate("3-never-a-statement-to-an-unregistered-host", fmt.Sprintf("statement %q sent to the unregistered host d9", ap.Call.SQL))
			}
			if ap.Call.Kind == "sql" && ap.Call.Op == "START_REPLICA" && inErr[ap.Call.Target] {
				// attempted (whether or not it reached the server): mysync counts it
				x := ap.Call.Target
				if e := w.Servers[x].Executed.String(); e != episode[x] {
					episode[x], repairStarts[x], resets[x] = e, 0, 0
				}
				repairStarts[x]++
				lastAttempt[x] = w.Now()
				r.Count("repair_starts")
			}
			if !ap.Effect {
				return
			}
			if ap.Call.Kind == "zk" && ap.Call.Target == vns+"/master" && ap.Call.Mut && string(ap.Call.ZKReq.Data) != `"h1"` {
				violate("2-recorded-master-never-changed", fmt.Sprintf("recorded master written: %s", ap.Call.ZKReq))
			}
			if ap.Call.Kind != "sql" {
				return
			}
			x := ap.Call.Target
			switch ap.Call.Op {
			case "CHANGE_SOURCE":
				if w.Servers[x].Source == x {
					violate("4-never-points-a-server-at-itself", x+" was pointed at itself")
				}
				if w.Servers[x].Source == "d9" {
					violate("3-never-a-statement-to-an-unregistered-host", x+" was pointed at the unregistered host d9")
				}
			case "RESET_REPLICA_ALL":
				if x == "h1" {
					return
				}
				r.Count("replica_resets")
				if e := w.Servers[x].Executed.String(); e != episode[x] {
					episode[x], repairStarts[x], resets[x] = e, 0, 0
				}
				resets[x]++
				if !c.Aggressive {
					violate("5-reset-only-in-aggressive-mode", fmt.Sprintf("RESET REPLICA ALL sent to %s although aggressive repair is off", x))
				} else if repairStarts[x] < c.MaxAttempts {
					violate("5-reset-only-after-start-attempts-exhausted", fmt.Sprintf("RESET REPLICA ALL sent to %s after %d START REPLICA repair attempts (limit %d)", x, repairStarts[x], c.MaxAttempts))
				} else if t, ok := lastAttempt[x]; ok && w.Now()-t < 10*time.Second {
					violate("5-reset-only-after-cooldown", fmt.Sprintf("RESET REPLICA ALL sent to %s %v after the previous repair attempt (cooldown 10 s)", x, w.Now()-t))
				} else if resets[x] > c.MaxAttempts {
					violate("5-reset-attempt-limit", fmt.Sprintf("RESET REPLICA ALL sent to %s for the %d-th time while its executed set has not moved (per-method attempt limit %d)", x, resets[x], c.MaxAttempts))
				}
				lastAttempt[x] = w.Now()
			}
		})
		mgrHost := "h1"
		if c.MgrHostRemoved {
			mgrHost = "h3"
		}
		a := h.Start(mgrHost)
		base := 0
		removedAt := -1
		if c.MgrHostRemoved {
			w.OnApply = append(w.OnApply, func(ap *sim.Applied) {
				if removedAt >= 0 && ap.Call.Kind == "sql" && ap.Call.Target == "h3" && ap.Call.Proc == h.ID(a) && ap.Point.Idx > removedAt {
					violate("3-never-a-statement-to-an-unregistered-host", fmt.Sprintf("statement %q sent to h3 after it was removed from the registry", ap.Call.SQL))
				}
			})
		}
		rounds := c10Rounds
		if c.Rounds > 0 {
			rounds = c.Rounds
		}
		for round := 0; round < rounds; round++ {
			h.InjectHealth()
			if c.MgrHostRemoved && round == 4 {
				w.ZK.Del(vns + "/ha_nodes/h3")
				removedAt = len(w.Trace) // the registry is re-read at the top of every iteration, before any statement
			}
			if round == 0 {
				base = len(w.Trace)
				if c.Dev != nil {
					d := *c.Dev
					d.At += base
					w.Plan[d.At] = d
				}
			}
			np := len(w.Panics)
			h.Tick(a)
			points = w.Trace[base:]
			if len(w.Panics) > np || len(w.Unknown) > 0 {
				violate("0-engine", fmt.Sprintf("panics=%v at %s unknown=%v in round %d", w.Panics, h.PanicWhere(), w.Unknown, round))
				return
			}
			for i, x := range spec.HA {
				if s := w.Servers[x]; i > 0 && c.Nodes[i-1].Threads == thIOErrUntilRepointed && s.HasSource && s.Source != "h1" && s.IORunning {
					s.IORunning, s.IOErrno, s.IOError = false, 2003, "error connecting to source" // the connection attempt fails again
				}
				w.Replicate(x)
				if c.Retry != 0 && i > 0 && c.Nodes[i-1].Threads == thSQLErrPersistent && c.Retry&(1<<uint(round)) == 0 {
					continue // has not come to the failing event again yet
				}
				w.Apply(x)
			}
			noteErr()
			if round%3 == 2 {
				w.Advance(11 * time.Second)
			} else {
				w.Advance(5 * time.Second)
			}
		}
		// final-state predicate
		if mk := h.MasterKey(); mk != "h1" {
			violate("2-recorded-master-never-changed", "recorded master is "+mk)
		}
		if m.Offline || m.ReadOnly {
			violate("1-master-online-and-writable", fmt.Sprintf("master offline=%v read_only=%v after %d iterations", m.Offline, m.ReadOnly, c10Rounds))
		}
		list := h.ActiveNodes()
		want := 0
		if c.SemiSync {
			want = min(len(list)/2, 1)
		}
		eff := 0
		if m.SSMaster {
			eff = m.WaitCount
		}
		if eff != want {
			violate("1-master-semi-sync-implied-by-list", fmt.Sprintf("master semi-sync enabled=%v count=%d, list %v implies %d", m.SSMaster, m.WaitCount, list, want))
		}
		for i, nd := range c.Nodes {
			host := fmt.Sprintf("h%d", i+2)
			s := w.Servers[host]
			if !s.ReadOnly {
				violate("1-every-node-read-only", host+" is still writable")
			}
			broken := nd.Source != srcNone && (nd.Threads == thSQLBroken || nd.Threads == thSQLErrPersistent && nd.Exec == 0)
			if !broken && !(s.HasSource && s.Source == "h1" && s.IORunning && s.SQLRunning) {
				violate("1-every-node-replica-of-the-master", fmt.Sprintf("%s is not a running replica of h1 (source=%q io=%v sql=%v ioerr=%d sqlerr=%d)", host, s.Source, s.IORunning, s.SQLRunning, s.IOErrno, s.SQLErrno))
			}
			if nd.Source == srcNone {
				r.Count("stale_masters")
				if !w.ZK.Exists(vns + "/recovery/" + host) {
					violate("1-stale-master-marked-for-recovery", host+" was a stale master and is not marked for recovery")
				}
				if !s.Offline {
					violate("1-stale-master-taken-offline", host+" was a stale master and is online although its recovery is pending")
				}
			}
		}
		r.Outcome(fmt.Sprintf("list=%v", list))
		r.Nontrivial(fmt.Sprintf("%+v", c))
		if r.Replay != nil {
			for _, l := range w.StmtLog {
				if !strings.Contains(l, "(no effect)") {
					r.Logf("%s", l)
				}
			}
		}
	})
	return
}

func checkC10(r *vt.Run) {
	var rc c10Case
	if r.ReplayInto(&rc) {
		c10Run(r, rc)
		return
	}
	var all []c10Node
	for _, ro := range []bool{true, false} {
		for _, off := range []bool{false, true} {
			for src := srcMaster; src <= srcNone; src++ {
				for th := thBoth; th <= thIOErrUntilRepointed; th++ {
					if src == srcNone && th != thBoth {
						continue
					}
					for _, ss := range []bool{true, false} {
						for ex := 0; ex < 3; ex++ {
							all = append(all, c10Node{ro, off, src, th, ss, ex})
						}
					}
				}
			}
		}
	}
	healthy := c10Node{true, false, srcMaster, thBoth, true, 1}
	few := []c10Node{healthy, {false, false, srcNone, thBoth, false, 1}, {true, true, srcOther, thStopped, true, 0}, {false, false, srcDecoy, thIOError, false, 2},
		{true, false, srcMaster, thSQLBroken, true, 1}}
	type cfg struct {
		semi, aggr bool
		max        int
	}
	cfgs := []cfg{{true, false, 3}, {true, true, 1}}
	masters := []int{0, 1}
	if r.Thorough() {
		cfgs = []cfg{{true, false, 3}, {true, true, 1}, {false, false, 3}, {false, true, 3}, {true, true, 3}}
		masters = []int{0, 1, 2, 3}
	}
	r.Bound("node_states", len(all))
	r.Bound("rounds", c10Rounds)
	idx := 0
	run := func(c c10Case) {
		idx++
		if !r.Mine(idx) {
			return
		}
		if idx%911 == 3 {
			r.Sample(c)
		}
		r.Crumb(c)
		pts := c10Run(r, c)
		focus := c.Aggressive && c.Nodes[1] == healthy && c.Master == 0 && c.Nodes[0].Exec == 0 && c.Nodes[0].RO && !c.Nodes[0].Offline && c.Nodes[0].SS &&
			c.Nodes[0].Source == srcMaster && (c.Nodes[0].Threads == thSQLErrPersistent || c.Nodes[0].Threads == thIOError)
		// ... and the repair of a stale master (every statement of its re-pointing and marking)
		focus = focus || c.Nodes[1] == healthy && c.Master <= 1 && c.Nodes[0].Source == srcNone && c.Nodes[0].Exec == 1 && c.Nodes[0].SS
		if focus || r.Thorough() && c.Nodes[1] == healthy && (idx%7 == 0 || c.Nodes[0].Threads >= thIOError || c.Nodes[0].Source == srcNone) {
			// one failing state-changing call at every call of every iteration (b = 1)
			for i, p := range pts {
				// with a stale master around: one failing READ of the recorded-master key (dropped connection,
				// and an error the client does not retry) - the fallback must not re-learn the master wrongly
				if !p.Fails && !p.Mut && p.Kind == "zk" && p.Target == vns+"/master" && c.Nodes[0].Source == srcNone {
					for fl := 0; fl < 2; fl++ {
						r.Count("deviations_b1_master_key_read")
						d := sim.Deviation{At: i, Kind: sim.DevErr, Arg: fl}
						cc := c
						cc.Dev = &d
						r.Crumb(cc)
						c10Run(r, cc)
					}
				}
				if p.Fails || !p.Mut {
					continue
				}
				if !r.Thorough() && !(p.Kind == "sql" && p.Target == "h2" || p.Kind == "zk" && c.Nodes[0].Source == srcNone && (strings.Contains(p.Target, "/recovery") || strings.HasSuffix(p.Target, "/active_nodes"))) {
					continue
				}
				r.Count("deviations_b1")
				d := sim.Deviation{At: i, Kind: sim.DevErr}
				cc := c
				cc.Dev = &d
				r.Crumb(cc)
				c10Run(r, cc)
			}
		}
	}
	for _, cf := range cfgs {
		for _, ms := range masters {
			for _, n2 := range all {
				if r.Expired() {
					return
				}
				run(c10Case{Nodes: [2]c10Node{n2, healthy}, Master: ms, SemiSync: cf.semi, Aggressive: cf.aggr, MaxAttempts: cf.max})
			}
			if ms == 0 {
				run(c10Case{Nodes: [2]c10Node{healthy, healthy}, Master: ms, SemiSync: cf.semi, Aggressive: cf.aggr, MaxAttempts: cf.max, MgrHostRemoved: true})
				run(c10Case{Nodes: [2]c10Node{{true, false, srcMaster, thStopped, true, 1}, healthy}, Master: ms, SemiSync: cf.semi, Aggressive: cf.aggr, MaxAttempts: cf.max, MgrHostRemoved: true})
			}
			// stale masters that are not (any more) members of the published list
			for _, n2 := range all {
				if n2.Source == srcNone && n2.SS {
					run(c10Case{Nodes: [2]c10Node{n2, healthy}, Master: ms, SemiSync: cf.semi, Aggressive: cf.aggr, MaxAttempts: cf.max, Unlisted: true})
				}
			}
			for _, n2 := range few {
				for _, n3 := range few {
					for _, perm := range []int{0, 5} {
						run(c10Case{Nodes: [2]c10Node{n2, n3}, Master: ms, SemiSync: cf.semi, Aggressive: cf.aggr, MaxAttempts: cf.max, Perm: perm})
					}
				}
			}
		}
	}	// the master itself in a wrong state (read-only; semi-sync switched the wrong way with a wrong count)
	// while the replicas and the published list are already consistent: a steady membership is no
	// reason to leave the master alone
	if r.Quick() {
		for _, cf := range cfgs {
			for _, ms := range []int{2, 3} {
				for _, n2 := range few {
					run(c10Case{Nodes: [2]c10Node{n2, healthy}, Master: ms, SemiSync: cf.semi, Aggressive: cf.aggr, MaxAttempts: cf.max})
				}
			}
		}
	}
	// a replica that looks cured for a while after a repair attempt and then meets the same failing
	// event again, its executed set never moving: every schedule of "meets the event in round i" up to
	// the bound - the attempt limits hold per episode of an unchanged executed set
	flap := c10Node{true, false, srcMaster, thSQLErrPersistent, true, 0}
	var masks []uint32
	nr := 22
	if r.Thorough() {
		nr = 14
		for m := uint32(1); m < 1<<14; m++ {
			masks = append(masks, m)
		}
	} else {
		for p := 2; p <= 7; p++ {
			for ph := 0; ph < p; ph++ {
				var m uint32
				for i := 0; i < nr; i++ {
					if i%p == ph {
						m |= 1 << uint(i)
					}
				}
				masks = append(masks, m)
			}
		}
	}
	r.Bound("retry_schedules", len(masks))
	for _, ma := range []int{1, 2} {
		for _, m := range masks {
			idx++
			if !r.Mine(idx) {
				continue
			}
			if idx%64 == 0 && r.Expired() {
				return
			}
			c := c10Case{Nodes: [2]c10Node{flap, healthy}, SemiSync: true, Aggressive: true, MaxAttempts: ma, Retry: m, Rounds: nr}
			r.Crumb(c)
			c10Run(r, c)
			r.Count("retry_schedules_run")
		}
	}
}
