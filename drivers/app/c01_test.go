//go:build verif

package app

// C01 Promotion only of a caught-up node backed by a frozen quorum.
// Two consecutive real manager iterations over a world that already contains a switch request
// (approveSwitchover -> StartSwitchover -> performSwitchover -> Fail/FinishSwitchover), for a grid
// of cluster shapes, GTID histories (gaps, received-but-unapplied tails, errant transactions),
// request kinds and configurations, fault-free and with ONE deviation at every external call of
// the first iteration. A monitor on the fake servers evaluates the property on ground truth at the
// instant `SET GLOBAL read_only = 0` reaches a host that is not the recorded master.

import (
	"fmt"
	"slices"
	"sort"
	"strings"
	"time"

	"github.com/yandex/mysync/internal/verif/sim"
	"github.com/yandex/mysync/internal/verif/vt"
)

func init() { verifChecks["C01"] = checkC01 }

type c01Rep struct {
	Exec int `json:"exec"` // 0 = all replicated transactions applied, 1 = one behind (not even received), 2 = errant own transaction
	Tail int `json:"tail"` // how many of the master's un-replicated transactions sit in the relay log, unapplied
}

type c01World struct {
	N         int      `json:"ha_nodes"`
	Cascade   bool     `json:"cascade"`
	Mode      string   `json:"mode"` // semisync1 semisync2 plain async
	Force     bool     `json:"force_switchover"`
	Kind      string   `json:"request"` // to2 to3 from1 auto-dead auto-hung auto-unhealthy forced
	List      []string `json:"active_nodes"`
	Ahead     int      `json:"master_ahead"`
	Reps      []c01Rep `json:"replicas"` // h2, h3, ...
	Prio3     int      `json:"priority_h3"`
	SlowSQL   bool     `json:"sql_threads_stuck"` // replicas' SQL threads do not apply during the procedure
	AsyncLagS int      `json:"async_repl_mon_delay_s"`
	// Flap: this host's mysqld refuses connections when the manager takes its snapshot of the cluster
	// (it does not answer the health check) and accepts them again from the first state-changing
	// statement of the iteration on (a flapping or overloaded node): a member that was not frozen is
	// not frozen
	Flap string `json:"host_unreachable_at_the_snapshot_only,omitempty"`
}

type c01Case struct {
	W   c01World       `json:"world"`
	Dev *sim.Deviation `json:"deviation,omitempty"`
}

func (c c01Case) String() string {
	d := "none"
	if c.Dev != nil {
		d = c.Dev.String()
	}
	return fmt.Sprintf("%+v dev=%s", c.W, d)
}

type c01Vio struct{ clause, detail string }

func c01Run(r *vt.Run, c c01Case) (points []sim.Point, devDesc string, found []c01Vio, promos int) {
	r.Eval()
	wd := c.W
	var ha []string
	for i := 1; i <= wd.N; i++ {
		ha = append(ha, fmt.Sprintf("h%d", i))
	}
	conf := map[string]string{"failover": "true", "slave_catch_up_timeout": "20s", "force_switchover": fmt.Sprint(wd.Force), "switchover_max_attempts": "3",
		"wait_start_replication_timeout": "3s", "replication_convergence_timeout_switchover": "20s"}
	wcfg := 1
	switch wd.Mode {
	case "semisync2":
		wcfg = 2
		conf["rpl_semi_sync_master_wait_for_slave_count"] = "2"
	case "plain":
		conf["semi_sync"] = "false"
	case "async":
		conf["semi_sync"], conf["async"], conf["repl_mon"], conf["async_allowed_lag"] = "false", "true", "true", "10s"
	}
	semi := strings.HasPrefix(wd.Mode, "semisync")
	spec := Spec{HA: ha, Conf: conf}
	if wd.Cascade {
		spec.Cascade = map[string]string{"c1": "h2"}
	}
	devDesc = "fault-free"
	violate := func(clause, detail string) { found = append(found, c01Vio{clause, detail}) }
	Bubble(r.T, spec, func(h *H) {
		h.BuildConverged()
		w := h.W
		w.LogStmts = r.Replay != nil
		m := w.Servers["h1"]
		u1 := m.UUID
		for i := 0; i < wd.Ahead; i++ {
			m.Executed.Add(u1, 4+i)
		}
		for i, rp := range wd.Reps {
			s := w.Servers[fmt.Sprintf("h%d", i+2)]
			switch rp.Exec {
			case 1:
				s.Executed = sim.Range(u1, 2)
			case 2:
				s.Executed.Add(s.UUID, 1)
			}
			for t := 0; t < rp.Tail && t < wd.Ahead; t++ {
				s.Retrieved.Add(u1, 4+t)
			}
			if rp.Exec == 1 {
				s.Retrieved.Add(u1, 3)
			}
			if !semi {
				s.SSSlave, s.SSLatched = false, false
			}
		}
		if !semi {
			m.SSMaster = false
		}
		w.ZK.Put(vns+"/active_nodes", jsonStr(wd.List))
		if wd.Prio3 != 0 && wd.N >= 3 {
			w.ZK.Put(vns+"/ha_nodes/h3", fmt.Sprintf(`{"priority":%d}`, wd.Prio3))
		}
		now := time.Now()
		sw := Switchover{InitiatedBy: "test", InitiatedAt: now, Cause: CauseManual, MasterTransition: SwitchoverTransition}
		switch wd.Kind {
		case "to2":
			sw.To = "h2"
		case "to3":
			sw.To = "h3"
		case "from1":
			sw.From = "h1"
		case "forced", "forced-dead":
			sw.From, sw.MasterTransition = "h1", FailoverTransition
		default:
			sw.From, sw.Cause, sw.MasterTransition = "h1", CauseAuto, FailoverTransition
		}
		w.ZK.Put(vns+"/switch", jsonStr(sw))
		switch wd.Kind {
		case "auto-dead", "forced-dead":
			m.Crash(w)
		case "auto-hung":
			for _, x := range spec.AllHosts() {
				if x != "h1" {
					w.SetCut(x, "h1", true)
				}
			}
		}
		if wd.Mode == "async" {
			base := float64(now.Unix())
			w.ZK.Put(vns+"/master_repl_mon_ts", fmt.Sprintf(`"%.3f"`, base))
			m.ReplMon, m.ReplMonTS = true, base
			for i := range wd.Reps {
				s := w.Servers[fmt.Sprintf("h%d", i+2)]
				s.ReplMon, s.ReplMonTS = true, base-float64(wd.AsyncLagS)
			}
		}
		if wd.Flap != "" {
			s3 := w.Servers[wd.Flap]
			s3.Up = false
			restored := false
			w.Chooser = func(pend []*sim.Call) int {
				if !restored {
					for _, p := range pend {
						if p.Kind == "sql" && p.Mut {
							s3.Up, restored = true, true
							break
						}
					}
				}
				if w.Policy == 1 {
					return len(pend) - 1
				}
				return 0
			}
		}
		h.InjectHealth()
		if wd.Kind == "auto-unhealthy" {
			w.ZK.Put(vns+"/health/h1", `{"ping_ok":true,"is_master":true,"is_file_system_readonly":true}`)
		}
		// replication makes progress while the procedure waits
		w.IdleEvery = time.Second
		w.OnIdle = func() {
			for _, x := range spec.AllHosts() {
				w.Replicate(x)
				if !wd.SlowSQL {
					w.Apply(x)
				}
			}
		}
		var listAtTick []string
		freezeOver := false
		frozenRO := map[string]bool{}
		frozenIO := map[string]bool{}
		// roByProcedure: super_read_only set on the node by this procedure (and seen to succeed), not
		// revoked since - whichever phase it happened in (the freeze goes node by node, each with its
		// own offline_mode on/off, so "before the first OFFLINE_OFF" would miss all but the first)
		roByProcedure := map[string]bool{}
		// ioByProcedure: the procedure stopped the node's IO thread and saw that succeed (a node on which
		// a freeze step failed from the procedure's point of view is dropped from it)
		ioByProcedure := map[string]bool{}
		w.OnApply = append(w.OnApply, func(ap *sim.Applied) {
			if ap.Call.Kind != "sql" || !ap.Effect {
				return
			}
			known := ap.Point.Dev != sim.DevLost // the procedure saw the statement succeed
			switch ap.Call.Op {
			case "SET_SUPER_RO":
				roByProcedure[ap.Call.Target] = known
			case "SET_WRITABLE":
				roByProcedure[ap.Call.Target] = false
			case "STOP_REPLICA_IO_THREAD":
				ioByProcedure[ap.Call.Target] = known
			}
			switch ap.Call.Op {
			case "CHANGE_SOURCE", "RESET_REPLICA_ALL", "OFFLINE_OFF":
				freezeOver = true // phases 1-2 are over: later IO-thread restarts are semi-sync toggles
			case "SET_SUPER_RO":
				if !freezeOver {
					frozenRO[ap.Call.Target] = known
				}
			case "STOP_REPLICA_IO_THREAD":
				if !freezeOver {
					frozenIO[ap.Call.Target] = known
				}
			case "SET_WRITABLE":
				p := ap.Call.Target
				if p == h.MasterKey() {
					return
				}
				promos++
				ps := w.Servers[p]
				A := listAtTick
				need := 1
				if semi {
					need = max(len(A)-min(len(A)/2, wcfg), 1)
				}
				var F, why []string
				for _, x := range A {
					s := w.Servers[x]
					if s == nil {
						continue
					}
					switch {
					case x == p:
						F = append(F, x)
					case !s.Up && (frozenRO[x] && frozenIO[x] || roByProcedure[x]) && s.ReadOnly && s.Positions().SubsetOf(ps.Executed):
						// frozen by this procedure, then lost: its durable state holds nothing beyond the
						// promoted node and it restarts read-only, so it still backs the quorum
						F = append(F, x)
						r.Count("frozen_then_lost_member_counted")
					case !s.Up:
						why = append(why, x+": down")
					case !s.ReadOnly:
						why = append(why, x+": writable")
					case !s.Positions().SubsetOf(ps.Executed):
						why = append(why, fmt.Sprintf("%s: holds %s which %s has not executed", x, strings.ReplaceAll(s.Positions().Minus(ps.Executed).String(), "\n", ""), p))
					default:
						F = append(F, x)
					}
				}
				exempt := false
				if wd.Mode == "async" && strings.HasPrefix(wd.Kind, "auto") {
					var ts float64
					var raw string
					h.ZGet("master_repl_mon_ts", &raw)
					fmt.Sscanf(raw, "%f", &ts)
					if ts-ps.ReplMonTS < 10 {
						exempt = true
						r.Count("async_exemption_used")
					}
				}
				if wd.Mode == "async" && !exempt {
					// without semi-sync the quorum is met by the promoted node alone; what the statement's
					// "only exception" rules out is promoting, outside an automatic failover within the allowed
					// lag, a node that lacks what a frozen member holds (executed or merely received)
					for _, x := range A {
						s := w.Servers[x]
						// (members this procedure froze: one it could not reach is outside the procedure's knowledge,
						// exactly as for the quorum of clause 1)
						if x != p && s != nil && s.Up && s.ReadOnly && (roByProcedure[x] && ioByProcedure[x] || x == "h1" && frozenRO[x]) && !s.Positions().SubsetOf(ps.Executed) {
							violate("C01/4-async-lag-exception-only-for-automatic-failover", fmt.Sprintf("%s made writable (executed %s) although frozen member %s holds %s and this is not an automatic failover within the allowed lag",
								p, strings.ReplaceAll(ps.Executed.String(), "\n", ""), x, strings.ReplaceAll(s.Positions().Minus(ps.Executed).String(), "\n", "")))
						}
					}
				}
				if strings.HasPrefix(p, "c") {
					violate("C01/3-cascade-never-promoted", fmt.Sprintf("cascade replica %s made writable", p))
				}
				if !slices.Contains(A, p) {
					violate("C01/1-promoted-node-is-active", fmt.Sprintf("%s made writable but is not in the published list %v", p, A))
				}
				if len(F) < need && !exempt {
					violate("C01/1-frozen-quorum-behind-promoted-node", fmt.Sprintf("%s made writable (executed %s) with only %v of the published list %v frozen and contained in it, quorum %d; others: %v",
						p, strings.ReplaceAll(ps.Executed.String(), "\n", ""), F, A, need, why))
				}
			}
		})
		a := h.Start("h2")
		base := 0
		for tick := 0; tick < 2; tick++ {
			listAtTick = h.ActiveNodes()
			freezeOver = false
			for k := range frozenRO {
				delete(frozenRO, k)
			}
			for k := range roByProcedure {
				delete(roByProcedure, k)
			}
			for k := range ioByProcedure {
				delete(ioByProcedure, k)
			}
			for k := range frozenIO {
				delete(frozenIO, k)
			}
			if tick == 0 {
				base = len(w.Trace)
				if c.Dev != nil {
					d := *c.Dev
					d.At += base
					w.Plan[d.At] = d
				}
			}
			promosBefore := promos
			emergeBefore := w.VFSHas("/vfs/h2/emerge")
			np := len(w.Panics)
			h.Tick(a)
			if len(w.Panics) > np || len(w.Unknown) > 0 {
				violate("C01/0-engine", fmt.Sprintf("panics=%v unknown=%v", w.Panics, w.Unknown))
				return
			}
			if tick == 0 {
				points = append([]sim.Point(nil), w.Trace[base:]...)
				if c.Dev != nil && c.Dev.At < len(points) {
					pt := points[c.Dev.At]
					devDesc = fmt.Sprintf("%s@%s:%s", c.Dev.Kind, pt.Kind, pt.Op)
				}
			}
			// split brain: frozen members' sets not totally ordered => nothing promoted (+ marker when undisturbed)
			var frozen []string
			for _, x := range listAtTick {
				if frozenRO[x] && (frozenIO[x] || x == "h1") && w.Servers[x].Up {
					frozen = append(frozen, x)
				}
			}
			chain := true
			for _, x := range frozen {
				for _, y := range frozen {
					px, py := w.Servers[x].Positions(), w.Servers[y].Positions()
					if !px.SubsetOf(py) && !py.SubsetOf(px) {
						chain = false
					}
				}
			}
			if !chain {
				r.Count("splitbrain_ticks")
				if promos > promosBefore {
					violate("C01/2-splitbrain-nothing-promoted", fmt.Sprintf("frozen members %v have incomparable transaction sets but a node was made writable", frozen))
				}
				if c.Dev == nil && !emergeBefore && !w.VFSHas("/vfs/h2/emerge") && h.Switch() != nil && h.Switch().Result != nil && strings.Contains(h.Switch().Result.Error, "splitbrain") {
					violate("C01/2-splitbrain-emergency-marker", "split brain reported but the emergency marker file was not written")
				}
				if w.VFSHas("/vfs/h2/emerge") {
					r.Count("emerge_written")
				}
			}
			if p := w.Procs[h.ID(a)]; p.Crashed {
				break
			}
			w.Advance(5 * time.Second)
			h.InjectHealth()
			if wd.Kind == "auto-unhealthy" && h.MasterKey() == "h1" {
				w.ZK.Put(vns+"/health/h1", `{"ping_ok":true,"is_master":true,"is_file_system_readonly":true}`)
			}
		}
		wr := h.Writable()
		sort.Strings(wr)
		res := "pending"
		if h.Switch() == nil {
			res = "gone"
		}
		r.Outcome(fmt.Sprintf("promos=%d master=%s writable=%v switch=%s", min(promos, 3), h.MasterKey(), wr, res))
		if r.Replay != nil {
			for _, l := range w.StmtLog {
				if !strings.Contains(l, "(no effect)") || strings.Contains(l, "ERR") && !strings.Contains(l, "does not exist") {
					r.Logf("%s", l)
				}
			}
		}
	})
	return
}

func c01Report(r *vt.Run, c c01Case, baseClauses map[string]bool) ([]sim.Point, map[string]bool) {
	pts, desc, found, promos := c01Run(r, c)
	bc := map[string]bool{}
	for _, v := range found {
		bc[v.clause] = true
		if baseClauses != nil && baseClauses[v.clause] {
			continue
		}
		r.Violate(v.clause+"/"+c.W.Kind+"/"+desc, v.detail+"; case "+c.String(), c)
	}
	if promos > 0 {
		r.Nontrivial(c.String())
		r.Count("executions_with_promotion")
	}
	return pts, bc
}

func c01Worlds(thorough bool) []c01World {
	var ws []c01World
	full := []string{"h1", "h2", "h3"}
	kinds := []string{"to2", "to3", "from1", "auto-dead", "auto-hung", "auto-unhealthy", "forced"}
	if thorough {
		kinds = append(kinds, "forced-dead")
	}
	type rs struct{ a, b c01Rep }
	if !thorough {
		reps := []rs{
			{c01Rep{0, 0}, c01Rep{0, 0}},
			{c01Rep{0, 2}, c01Rep{0, 0}}, // h2 received the master's tail, h3 did not
			{c01Rep{0, 0}, c01Rep{0, 1}},
			{c01Rep{1, 0}, c01Rep{0, 2}}, // h2 behind with a gap in its relay, h3 has the tail
			{c01Rep{0, 1}, c01Rep{2, 0}}, // h3 carries an errant transaction
		}
		for _, k := range kinds {
			for _, rp := range reps {
				ws = append(ws, c01World{N: 3, Mode: "semisync1", Kind: k, List: full, Ahead: 2, Reps: []c01Rep{rp.a, rp.b}})
			}
			ws = append(ws, c01World{N: 3, Mode: "semisync1", Kind: k, List: []string{"h1", "h2"}, Ahead: 2, Reps: []c01Rep{{0, 1}, {0, 2}}})
			ws = append(ws, c01World{N: 3, Mode: "plain", Kind: k, List: full, Ahead: 2, Reps: []c01Rep{{0, 0}, {0, 2}}, Prio3: 10})
			ws = append(ws, c01World{N: 3, Mode: "semisync2", Kind: k, List: full, Ahead: 2, Reps: []c01Rep{{0, 1}, {0, 2}}})
			ws = append(ws, c01World{N: 3, Mode: "semisync1", Kind: k, List: full, Ahead: 2, Reps: []c01Rep{{0, 2}, {0, 0}}, Prio3: 10, SlowSQL: true})
		}
		ws = append(ws, c01World{N: 3, Mode: "async", Kind: "auto-dead", List: full, Ahead: 2, Reps: []c01Rep{{0, 2}, {0, 0}}, Prio3: 10, SlowSQL: true, AsyncLagS: 5})
		ws = append(ws, c01World{N: 3, Mode: "async", Kind: "auto-dead", List: full, Ahead: 2, Reps: []c01Rep{{0, 2}, {0, 0}}, Prio3: 10, SlowSQL: true, AsyncLagS: 20})
		ws = append(ws, c01World{N: 3, Mode: "semisync1", Kind: "from1", Force: true, List: full, Ahead: 1, Reps: []c01Rep{{0, 1}, {0, 0}}})
		// a member that does not answer the health check of the iteration but answers again during the
		// procedure (with and without the master's tail)
		for _, k := range kinds {
			for _, fl := range []string{"h1", "h3"} {
				if fl == "h1" && (k == "auto-dead" || k == "forced-dead") {
					continue
				}
				ws = append(ws, c01World{N: 3, Mode: "semisync1", Kind: k, List: full, Ahead: 2, Reps: []c01Rep{{0, 0}, {0, 2}}, Flap: fl})
				ws = append(ws, c01World{N: 3, Mode: "semisync1", Kind: k, List: full, Ahead: 2, Reps: []c01Rep{{0, 2}, {0, 0}}, Flap: fl})
			}
		}
		// the async allowed-lag exception belongs to AUTOMATIC failover only: every other request kind
		// with a lagging preferred candidate inside the allowed lag
		for _, k := range []string{"forced", "forced-dead", "from1", "to3", "auto-hung"} {
			ws = append(ws, c01World{N: 3, Mode: "async", Kind: k, List: full, Ahead: 2, Reps: []c01Rep{{0, 2}, {0, 0}}, Prio3: 10, SlowSQL: true, AsyncLagS: 5})
		}
		return ws
	}
	var repStates []c01Rep
	for e := 0; e < 3; e++ {
		for t := 0; t <= 2; t++ {
			repStates = append(repStates, c01Rep{e, t})
		}
	}
	for _, k := range kinds {
		for _, mode := range []string{"semisync1", "plain"} {
			for _, list := range [][]string{full, {"h1", "h2"}, {"h1", "h3"}} {
				for _, ahead := range []int{0, 2} {
					for _, a := range repStates {
						for _, b := range repStates {
							if ahead == 0 && (a.Tail > 0 || b.Tail > 0) {
								continue
							}
							for _, prio := range []int{0, 10} {
								if prio != 0 && k != "from1" && !strings.HasPrefix(k, "auto") {
									continue
								}
								ws = append(ws, c01World{N: 3, Mode: mode, Kind: k, List: list, Ahead: ahead, Reps: []c01Rep{a, b}, Prio3: prio})
							}
						}
					}
				}
			}
		}
		// other shapes
		for _, a := range []c01Rep{{0, 0}, {0, 2}} {
			ws = append(ws, c01World{N: 2, Mode: "semisync1", Kind: k, List: []string{"h1", "h2"}, Ahead: 2, Reps: []c01Rep{a}})
			for _, b := range []c01Rep{{0, 0}, {0, 1}, {2, 0}} {
				ws = append(ws, c01World{N: 4, Mode: "semisync2", Kind: k, List: []string{"h1", "h2", "h3", "h4"}, Ahead: 2, Reps: []c01Rep{a, b, {0, 0}}})
				ws = append(ws, c01World{N: 4, Mode: "semisync2", Kind: k, List: []string{"h1", "h2", "h3"}, Ahead: 2, Reps: []c01Rep{a, b, {0, 2}}})
				ws = append(ws, c01World{N: 3, Cascade: true, Mode: "semisync1", Kind: k, List: full, Ahead: 2, Reps: []c01Rep{a, b}})
				ws = append(ws, c01World{N: 3, Mode: "semisync1", Kind: k, Force: true, List: full, Ahead: 2, Reps: []c01Rep{a, b}})
				ws = append(ws, c01World{N: 3, Mode: "semisync1", Kind: k, List: full, Ahead: 2, Reps: []c01Rep{a, b}, SlowSQL: true, Prio3: 10})
				for _, lag := range []int{5, 20} {
					ws = append(ws, c01World{N: 3, Mode: "async", Kind: k, List: full, Ahead: 2, Reps: []c01Rep{a, b}, SlowSQL: true, Prio3: 10, AsyncLagS: lag})
				}
				// a member that does not answer the health check of the iteration but answers again during
				// the procedure (as in the quick tier, over more replica shapes)
				for _, fl := range []string{"h1", "h3"} {
					if fl == "h1" && (k == "auto-dead" || k == "forced-dead") {
						continue
					}
					ws = append(ws, c01World{N: 3, Mode: "semisync1", Kind: k, List: full, Ahead: 2, Reps: []c01Rep{a, b}, Flap: fl})
					ws = append(ws, c01World{N: 3, Mode: "semisync1", Kind: k, List: full, Ahead: 2, Reps: []c01Rep{b, a}, Flap: fl})
				}
			}
		}
	}
	return ws
}

func c01Devs(p sim.Point, i int) []sim.Deviation {
	var d []sim.Deviation
	if p.Fails {
		return nil
	}
	d = append(d, sim.Deviation{At: i, Kind: sim.DevErr})
	if p.Kind == "sql" {
		d = append(d, sim.Deviation{At: i, Kind: sim.DevHang}, sim.Deviation{At: i, Kind: sim.DevTargetDownBefore})
		if p.Op == "ping" {
			d = append(d, sim.Deviation{At: i, Kind: sim.DevErr, Arg: 1}) // dubious 1040
		}
		if p.Mut {
			d = append(d, sim.Deviation{At: i, Kind: sim.DevLost}, sim.Deviation{At: i, Kind: sim.DevTargetDownAfter})
		}
	} else if p.Mut {
		d = append(d, sim.Deviation{At: i, Kind: sim.DevLost})
	}
	return d
}

func checkC01(r *vt.Run) {
	var rc c01Case
	if r.ReplayInto(&rc) {
		var bc map[string]bool
		if rc.Dev != nil {
			b := rc
			b.Dev = nil
			_, _, fnd, _ := c01Run(r, b)
			bc = map[string]bool{}
			for _, v := range fnd {
				bc[v.clause] = true
			}
		}
		c01Report(r, rc, bc)
		return
	}
	worlds := c01Worlds(r.Thorough())
	r.Bound("worlds", len(worlds))
	r.Bound("deviation_bound", 1)
	r.Bound("iterations_per_execution", 2)
	// shard by (world, deviation) so that every worker gets a share of every world
	idx := 0
	for wi, wd := range worlds {
		c := c01Case{W: wd}
		var pts []sim.Point
		var bc map[string]bool
		if r.Shard == wi%max(r.NShards, 1) {
			r.Crumb(c)
			pts, bc = c01Report(r, c, nil)
			if wi%23 == 0 {
				r.Sample(c)
			}
		} else {
			// every worker needs the decision points of the fault-free run
			pts, _, fnd, _ := c01Run(r, c)
			r.R.Evaluations--
			bc = map[string]bool{}
			for _, v := range fnd {
				bc[v.clause] = true
			}
			_ = pts
			c01pts := pts
			for i, p := range c01pts {
				for _, d := range c01Devs(p, i) {
					idx++
					if !r.Mine(idx) {
						continue
					}
					if idx%64 == 0 && r.Expired() {
						return
					}
					d := d
					cc := c01Case{W: wd, Dev: &d}
					r.Crumb(cc)
					c01Report(r, cc, bc)
				}
			}
			continue
		}
		for i, p := range pts {
			for _, d := range c01Devs(p, i) {
				idx++
				if !r.Mine(idx) {
					continue
				}
				if idx%64 == 0 && r.Expired() {
					return
				}
				d := d
				cc := c01Case{W: wd, Dev: &d}
				r.Crumb(cc)
				c01Report(r, cc, bc)
			}
		}
	}
}
