//go:build verif

package app

// C11 on constructed states ("further switchovers"): the recorded master is h3; h2, the previous
// master, is still alive; h1 is marked for recovery and - because no manager iteration has re-pointed
// it yet, or the re-pointing failed - may still replicate from h2. One recovery check of h1's own
// mysync: the mark may go only if h1 is a read-only replica whose transactions are contained in the
// RECORDED master's; if it holds more the resetup file is written and the mark stays.

import (
	"fmt"
	"strings"

	"github.com/yandex/mysync/internal/verif/sim"
	"github.com/yandex/mysync/internal/verif/vt"
)

type c11StateCase struct {
	State  bool   `json:"constructed_state"`
	Source string `json:"h1_replicates_from"` // h3 (the recorded master) | h2 (the previous master)
	H2     string `json:"previous_master"`    // alive-replica-of-h3 | alive-stale-master | dead
	Extra  string `json:"h1_extra"`           // none | shared-with-h2-only | own-only
}

func c11StateRun(r *vt.Run, c c11StateCase) {
	r.Eval()
	spec := Spec{HA: []string{"h1", "h2", "h3"}, Conf: map[string]string{"failover": "true"}}
	Bubble(r.T, spec, func(h *H) {
		h.BuildConverged()
		w := h.W
		w.LogStmts = r.Replay != nil
		// the manager lock is held by the mysync of h3, which does not get to run an iteration in the
		// constructed state (so nothing has re-pointed h1 yet)
		a3 := h.Start("h3")
		h.InjectHealth()
		h.Tick(a3)
		h1, h2, h3 := w.Servers["h1"], w.Servers["h2"], w.Servers["h3"]
		// h3 is the master now
		h3.HasSource, h3.Source, h3.IORunning, h3.SQLRunning = false, "", false, false
		h3.ReadOnly, h3.SuperRO = false, false
		w.ZK.Put(vns+"/master", `"h3"`)
		w.ZK.Put(vns+"/active_nodes", `["h3","h2"]`)
		switch c.H2 {
		case "alive-replica-of-h3":
			h2.MakeReplica("h3")
		case "alive-stale-master":
			h2.HasSource, h2.Source, h2.IORunning, h2.SQLRunning = false, "", false, false
			h2.ReadOnly, h2.SuperRO = true, true
		case "dead":
			h2.HasSource, h2.Source = false, ""
			h2.Crash(w)
		}
		h1.MakeReplica(c.Source)
		if c.Source == "h2" && c.H2 == "dead" {
			h1.IORunning, h1.IOErrno = false, 2003
		}
		switch c.Extra {
		case "shared-with-h2-only":
			g := h2.Executed.MaxGno(h2.UUID) + 1
			h2.Executed.Add(h2.UUID, g)
			h1.Executed.Add(h2.UUID, g)
		case "own-only":
			h1.Executed.Add(h1.UUID, h1.Executed.MaxGno(h1.UUID)+1)
		}
		w.ZK.Put(vns+"/recovery/h1", "null")
		a1 := h.Start("h1")
		h.InjectHealth()
		h.Tick(a1) // FirstRun -> Candidate: loads the registry
		dirty := !h1.Executed.SubsetOf(h3.Executed)
		w.OnApply = append(w.OnApply, func(ap *sim.Applied) {
			if ap.Effect && ap.Call.Kind == "zk" && ap.Call.Op == "delete" && ap.Call.Target == vns+"/recovery/h1" && dirty {
				r.Violate("C11/3-mark-cleared-only-when-contained-in-master/constructed-state", fmt.Sprintf("recovery mark of h1 cleared by %s although h1 holds %s which the recorded master h3 lacks; case %+v",
					ap.Call.Proc, strings.ReplaceAll(h1.Executed.Minus(h3.Executed).String(), "\n", ""), c), c)
			}
		})
		np := len(w.Panics)
		h.Recovery(a1)
		if len(w.Panics) > np || len(w.Unknown) > 0 {
			r.Violate("C11/0-engine", fmt.Sprintf("panics=%v at %s unknown=%v; case %+v", w.Panics, h.PanicWhere(), w.Unknown, c), c)
			return
		}
		marked := w.ZK.Exists(vns + "/recovery/h1")
		if dirty && h1.IOErrno == 0 {
			if !w.VFSHas("/vfs/h1/resetup") {
				r.Violate("C11/4-dirty-host-gets-resetup-file/constructed-state", fmt.Sprintf("h1 is marked and holds transactions the recorded master lacks, but its recovery check did not write the resetup file; case %+v", c), c)
			}
			if !marked {
				r.Violate("C11/4-dirty-host-keeps-mark/constructed-state", fmt.Sprintf("h1 is marked and dirty but the mark disappeared; case %+v", c), c)
			}
		}
		r.Outcome(fmt.Sprintf("state: dirty=%v marked-after=%v resetup=%v", dirty, marked, w.VFSHas("/vfs/h1/resetup")))
		r.Nontrivial(fmt.Sprintf("%+v", c))
		if r.Replay != nil {
			for _, l := range w.StmtLog {
				r.Logf("%s", l)
			}
		}
	})
}

func checkC11States(r *vt.Run) {
	n := 0
	for _, src := range []string{"h3", "h2"} {
		for _, h2 := range []string{"alive-replica-of-h3", "alive-stale-master", "dead"} {
			for _, ex := range []string{"none", "shared-with-h2-only", "own-only"} {
				n++
				if !r.Mine(n) {
					continue
				}
				c := c11StateCase{true, src, h2, ex}
				r.Crumb(c)
				c11StateRun(r, c)
			}
		}
	}
	r.Bound("constructed_states", n)
}
