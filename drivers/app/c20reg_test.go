//go:build verif && !race

package app

func init() { verifChecks["C20"] = checkC20 }
