//go:build verif

package app

// C07 Switchover is resumable after a manager crash at any point. For each world and request
// kind the manager's iteration is cut by a crash after EACH external call (and by loss of the
// coordination service before each call); then a successor - the same host restarted, or each
// other host - takes over while every host's own health and recovery checks, replication and
// a client workload keep running, until the cluster has settled. Oracle: C02's final-state
// predicate on ground truth.

import (
	"fmt"
	"sort"
	"strings"
	"time"

	"github.com/yandex/mysync/internal/verif/sim"
	"github.com/yandex/mysync/internal/verif/vt"
)

func init() { verifChecks["C07"] = checkC07 }

type c07World struct {
	N       int    `json:"ha_nodes"`
	Cascade bool   `json:"cascade"`
	Kind    string `json:"request"`        // to3 from1 auto-dead forced to2
	Tail    bool   `json:"target_lagging"` // the master is ahead; replicas hold unapplied tails
	Manager string `json:"manager"`
	W       int    `json:"configured_count"`
}

type c07Case struct {
	W         c07World       `json:"world"`
	Dev       *sim.Deviation `json:"cut,omitempty"`
	Successor string         `json:"successor"`
	// Survives: the manager that loses the coordination service is not dead: its session expires, it
	// reconnects under a new one and keeps running its loop next to the successor (Successor equal to
	// the manager: the very same process, not a restarted one, carries on)
	Survives bool `json:"old_manager_survives_the_loss,omitempty"`
}

func (c c07Case) String() string {
	d := "none"
	if c.Dev != nil {
		d = c.Dev.String()
	}
	return fmt.Sprintf("%+v cut=%s successor=%s", c.W, d, c.Successor)
}

const c07Rounds = 14

func c07Run(r *vt.Run, c c07Case) (points []sim.Point, cutDesc string, found []c01Vio) {
	r.Eval()
	wd := c.W
	var ha []string
	for i := 1; i <= wd.N; i++ {
		ha = append(ha, fmt.Sprintf("h%d", i))
	}
	spec := Spec{HA: ha, Conf: map[string]string{"failover": "true", "slave_catch_up_timeout": "20s", "switchover_max_attempts": "5",
		"wait_start_replication_timeout": "3s", "replication_convergence_timeout_switchover": "20s", "failover_cooldown": "1s",
		"rpl_semi_sync_master_wait_for_slave_count": fmt.Sprint(max(wd.W, 1))}}
	if wd.Cascade {
		spec.Cascade = map[string]string{"c1": "h2"}
	}
	cutDesc = "none"
	violate := func(clause, detail string) { found = append(found, c01Vio{clause, detail}) }
	Bubble(r.T, spec, func(h *H) {
		h.BuildConverged()
		w := h.W
		w.LogStmts = r.Replay != nil
		m := w.Servers["h1"]
		if wd.Tail {
			m.Executed.Add(m.UUID, 4)
			m.Executed.Add(m.UUID, 5)
			w.Servers["h2"].Retrieved.Add(m.UUID, 4)
			w.Servers["h2"].Retrieved.Add(m.UUID, 5)
			if wd.N >= 3 {
				w.Servers["h3"].Retrieved.Add(m.UUID, 4)
			}
		}
		now := time.Now()
		sw := Switchover{InitiatedBy: "test", InitiatedAt: now, Cause: CauseManual, MasterTransition: SwitchoverTransition}
		switch wd.Kind {
		case "to2":
			sw.To = "h2"
		case "to3":
			sw.To = "h3"
		case "from1":
			sw.From = "h1"
		case "forced":
			sw.From, sw.MasterTransition = "h1", FailoverTransition
		case "auto-dead":
			sw.From, sw.Cause, sw.MasterTransition = "h1", CauseAuto, FailoverTransition
		}
		// a client wrote just before: acknowledged transactions that must survive
		t1 := w.Write("h1")
		w.Replicate("h2")
		if wd.N >= 3 {
			w.Replicate("h3")
		}
		_ = t1
		w.ZK.Put(vns+"/switch", jsonStr(sw))
		if wd.Kind == "auto-dead" {
			m.Crash(w)
		}
		w.IdleEvery = time.Second
		dyn := func() {
			for _, x := range spec.AllHosts() {
				w.Replicate(x)
				w.Apply(x)
			}
		}
		w.OnIdle = dyn
		// every host runs its own mysync
		h.StartAll()
		h.HealthAll()
		mgr := h.Apps[wd.Manager]
		// other instances idle as candidates (they will not get the lock while the manager lives)
		base := len(w.Trace)
		if c.Dev != nil {
			d := *c.Dev
			d.At += base
			w.Plan[d.At] = d
		}
		np := len(w.Panics)
		h.Tick(mgr)
		points = append([]sim.Point(nil), w.Trace[base:]...)
		if c.Dev != nil && c.Dev.At < len(points) {
			pt := points[c.Dev.At]
			cutDesc = fmt.Sprintf("%s@%s:%s", c.Dev.Kind, pt.Kind, pt.Op)
			if c.Survives {
				cutDesc += "[old-manager-survives]"
			}
		}
		if len(w.Panics) > np || len(w.Unknown) > 0 {
			violate("C07/0-engine", fmt.Sprintf("panics=%v unknown=%v", w.Panics, w.Unknown))
			return
		}
		succ := c.Successor
		if succ == "" {
			succ = wd.Manager
		}
		mp := w.Procs[h.ID(mgr)]
		lostZK := c.Dev != nil && c.Dev.Kind == sim.DevZKLoss
		if mp.Crashed || lostZK {
			// the old manager is gone (or cut off): its session expires, the successor takes over
			if lostZK && !mp.Crashed && !c.Survives {
				w.Crash(h.ID(mgr)) // a mysync that lost the service idles in Lost state; model the hand-over by its death
			}
			for _, zc := range mp.ZK {
				w.ZK.Expire(zc)
			}
			w.SetCut(wd.Manager, "zk", false)
			w.ZK.SyncLinks()
			if succ == wd.Manager && !(lostZK && c.Survives) {
				h.Start(wd.Manager)
			}
			w.Settle()
		}
		stableFrom := -1
		var lastProblems []string
		for round := 0; round < c07Rounds; round++ {
			// clients keep committing while no manager is acting: a half-promoted node that is already
			// writable takes (and, with its replicas attached, acknowledges) writes before the successor's
			// first iteration
			for _, x := range ha {
				if w.Servers[x].Accepts(w) {
					w.Write(x)
				}
			}
			dyn()
			w.Advance(5 * time.Second)
			dyn()
			if round == 2 && succ != wd.Manager && w.Procs[h.ID(h.Apps[wd.Manager])].Crashed {
				h.Start(wd.Manager) // the dead mysync is restarted by its supervisor
			}
			for _, x := range spec.AllHosts() {
				if x == "h1" && wd.Kind == "auto-dead" && round < 6 {
					continue
				}
				a := h.Apps[x]
				if w.Procs[h.ID(a)].Crashed {
					continue
				}
				h.Health(a)
				h.Recovery(a)
			}
			if wd.Kind == "auto-dead" && round == 6 {
				m.Start(w) // the dead master returns late
			}
			np := len(w.Panics)
			if lostZK && c.Survives && succ != wd.Manager {
				h.Tick(h.Apps[wd.Manager]) // the deposed manager's loop runs on
			}
			h.Tick(h.Apps[succ])
			if len(w.Panics) > np || len(w.Unknown) > 0 {
				violate("C07/0-engine", fmt.Sprintf("panics=%v unknown=%v in round %d", w.Panics, w.Unknown, round))
				return
			}
			// workload: one commit attempt on every host that would accept it
			for _, x := range ha {
				if w.Servers[x].Accepts(w) {
					w.Write(x)
				}
			}
			dyn()
			lastProblems = c07Final(h, spec, wd)
			if len(lastProblems) == 0 {
				if stableFrom < 0 {
					stableFrom = round
				}
			} else {
				stableFrom = -1
			}
		}
		if stableFrom < 0 || stableFrom > c07Rounds-2 {
			for _, p := range lastProblems {
				clause := p[:strings.Index(p, ":")]
				violate("C07/"+clause, p[strings.Index(p, ":")+2:]+fmt.Sprintf(" (after %d rounds of the successor)", c07Rounds))
			}
			if len(lastProblems) == 0 {
				violate("C07/5-settles", "the final-state predicate held only in the very last round")
			}
		}
		wr := h.Writable()
		sort.Strings(wr)
		r.Outcome(fmt.Sprintf("master=%s writable=%v stable_from=%d", h.MasterKey(), wr, min(stableFrom, 9)))
		if r.Replay != nil {
			for _, l := range w.StmtLog {
				if !strings.Contains(l, "(no effect)") || strings.Contains(l, "ERR") && !strings.Contains(l, "does not exist") {
					r.Logf("%s", l)
				}
			}
			r.Logf("%s", h.Canon())
		}
	})
	return
}

// c07Final evaluates C02's final-state predicate; returns the problems found ("clause: text").
func c07Final(h *H, spec Spec, wd c07World) []string {
	w := h.W
	var ps []string
	master := h.MasterKey()
	wr := h.Writable()
	if len(wr) != 1 || wr[0] != master {
		ps = append(ps, fmt.Sprintf("1-one-writable-master-equal-to-recorded: writable nodes %v, recorded master %q", wr, master))
	}
	ms := w.Servers[master]
	for _, x := range spec.HA {
		s := w.Servers[x]
		if x == master || !s.Up {
			continue
		}
		if !s.ReadOnly {
			continue // reported above
		}
		if !s.HasSource || s.Source != master || !s.IORunning || !s.SQLRunning {
			ps = append(ps, fmt.Sprintf("2-replicas-follow-the-master: %s is not a running replica of %s (source=%q io=%v sql=%v)", x, master, s.Source, s.IORunning, s.SQLRunning))
		}
	}
	if ms != nil && ms.HasSource {
		ps = append(ps, fmt.Sprintf("1-one-writable-master-equal-to-recorded: master %s is itself configured as a replica of %q (io=%v sql=%v)", master, ms.Source, ms.IORunning, ms.SQLRunning))
	}
	if ms != nil && ms.Offline {
		ps = append(ps, fmt.Sprintf("1-one-writable-master-equal-to-recorded: master %s is in offline mode", master))
	}
	if w.ZK.Exists(vns + "/switch") {
		d, _ := w.ZK.Get(vns + "/switch")
		ps = append(ps, "3-request-finished-or-rejected: the switch request is still pending: "+d)
	}
	if ms != nil {
		for _, t := range w.Ledger {
			if t.Status == sim.TxnAcked && !ms.Executed.Has(t.ID.UUID, t.ID.Gno) {
				ps = append(ps, fmt.Sprintf("4-no-acknowledged-transaction-lost: %s acknowledged by %s at %v is missing from master %s", t.ID, t.Host, t.AckAt, master))
				break
			}
		}
	}
	return ps
}

func c07Report(r *vt.Run, c c07Case) []sim.Point {
	pts, desc, found := c07Run(r, c)
	for _, v := range found {
		shape := ""
		if c.W.N != 3 || c.W.Cascade {
			shape = fmt.Sprintf("[%d-nodes", c.W.N)
			if c.W.Cascade {
				shape += "+cascade"
			}
			shape += "]"
		}
		r.Violate(v.clause+"/"+c.W.Kind+shape+"/"+desc, v.detail+"; case "+c.String(), c)
	}
	if c.Dev != nil {
		r.Nontrivial(c.String())
	}
	return pts
}

func checkC07(r *vt.Run) {
	var rc c07Case
	if r.ReplayInto(&rc) {
		c07Report(r, rc)
		return
	}
	var worlds []c07World
	for _, k := range []string{"to3", "from1", "auto-dead", "forced"} {
		worlds = append(worlds, c07World{N: 3, Kind: k, Manager: "h2", W: 1})
	}
	worlds = append(worlds, c07World{N: 3, Kind: "to2", Tail: true, Manager: "h1", W: 1})
	// the smallest cluster: after the promotion there is no replica left (both thorough-tier findings so
	// far - repo fix c9f2962 and seeded/C07-d - show only here)
	worlds = append(worlds, c07World{N: 2, Kind: "auto-dead", Manager: "h2", W: 1})
	if r.Thorough() {
		for _, k := range []string{"to2", "from1", "auto-dead", "forced"} {
			worlds = append(worlds, c07World{N: 2, Kind: k, Manager: "h2", W: 1}, c07World{N: 4, Kind: k, Manager: "h2", W: 2},
				c07World{N: 3, Cascade: true, Kind: k, Manager: "h3", W: 1}, c07World{N: 3, Kind: k, Tail: true, Manager: "h2", W: 1},
				c07World{N: 3, Kind: k, Manager: "h1", W: 1})
		}
		worlds = append(worlds, c07World{N: 4, Kind: "to3", Tail: true, Manager: "h4", W: 2})
	}
	r.Bound("worlds", len(worlds))
	r.Bound("rounds_after_cut", c07Rounds)
	idx := 0
	for _, wd := range worlds {
		if wd.Kind == "auto-dead" && wd.Manager == "h1" {
			continue
		}
		base := c07Case{W: wd, Successor: wd.Manager}
		pts, _, bf := c07Run(r, base)
		r.R.Evaluations--
		if r.Shard == 0 {
			r.R.Evaluations++
			for _, v := range bf {
				r.Violate(v.clause+"/"+wd.Kind+"/none", v.detail+"; case "+base.String(), base)
			}
			r.Sample(base)
		}
		// the procedure = calls from reading the request to the end of the iteration
		first := 0
		for i, p := range pts {
			if p.Kind == "zk" && p.Target == vns+"/switch" && p.Op == "get" {
				first = i
				break
			}
		}
		var succs []string
		for i := 1; i <= wd.N; i++ {
			x := fmt.Sprintf("h%d", i)
			if x == "h1" && wd.Kind == "auto-dead" {
				continue
			}
			succs = append(succs, x)
		}
		for i := first; i < len(pts); i++ {
			p := pts[i]
			var devs []sim.Deviation
			devs = append(devs, sim.Deviation{At: i, Kind: sim.DevCrashAfter})
			if i == first {
				devs = append(devs, sim.Deviation{At: i, Kind: sim.DevCrashBefore})
			}
			if p.Mut || p.Kind == "zk" {
				devs = append(devs, sim.Deviation{At: i, Kind: sim.DevZKLoss})
			}
			for _, d := range devs {
				for _, s := range succs {
					idx++
					if !r.Mine(idx) {
						continue
					}
					if r.Expired() {
						return
					}
					d := d
					cc := c07Case{W: wd, Dev: &d, Successor: s}
					r.Crumb(cc)
					c07Report(r, cc)
					if d.Kind == sim.DevZKLoss {
						cc.Survives = true
						r.Crumb(cc)
						c07Report(r, cc)
					}
				}
			}
		}
	}
}
