//go:build verif

package app

// Daemon mode: the real app.Run() of several mysync instances inside the bubble - real tickers,
// the real goroutine structure (main loop, health, recovery, lag, info-file loops) on virtual
// time. The harness only lets time flow, decides gates, injects faults and drives a workload.

import (
	"fmt"
	"os"
	"strings"
	"testing/synctest"
	"time"

	"github.com/yandex/mysync/internal/verif/sim"
	"github.com/yandex/mysync/internal/verif/vsignal"
)

type daemon struct {
	app  *App
	id   string
	host string
	exit chan int
	rc   int
	done bool
}

// Spawn starts a new mysync process on host: real NewApp, then the real Run() in its own goroutine.
func (h *H) Spawn(host string) *daemon {
	h.inc[host]++
	id := fmt.Sprintf("%s.%d", host, h.inc[host])
	h.W.AddProc(id, host)
	cfg := h.configFile(id, host)
	saved := os.Stderr
	sink, err := os.OpenFile(os.DevNull, os.O_WRONLY, 0)
	if err != nil {
		h.T.Fatalf("open log sink: %v", err)
	}
	os.Stderr = sink
	a, err := NewApp(cfg, "fatal", true)
	os.Stderr = saved
	if err != nil {
		h.T.Fatalf("NewApp: %v", err)
	}
	h.ids[a] = id
	h.hc[a] = &hcState{}
	d := &daemon{app: a, id: id, host: host, exit: make(chan int, 1)}
	vsignal.SetCurrent(id)
	go func() {
		defer func() {
			if r := recover(); r != nil {
				h.W.Panics = append(h.W.Panics, fmt.Sprintf("%s: %v", id, r))
				d.rc = 99
				d.done = true
				d.exit <- 99
			}
		}()
		rc := a.Run()
		d.rc = rc
		d.done = true
		d.exit <- rc
	}()
	synctest.Wait()
	if old := h.daemons[host]; old != nil && !old.done {
		h.T.Fatalf("daemon %s still running on %s", old.id, host)
	}
	if h.daemons == nil {
		h.daemons = map[string]*daemon{}
	}
	h.daemons[host] = d
	h.allDaemons = append(h.allDaemons, d)
	return d
}

// Kill crashes the mysync process of host (kill -9): its calls fail from now on, its session stays
// until it expires.
func (h *H) Kill(host string) {
	if d := h.daemons[host]; d != nil && !d.done {
		h.W.Crash(d.id)
	}
}

// Term sends SIGTERM to the mysync of host (clean shutdown through Run()'s defers).
func (h *H) Term(host string) {
	if d := h.daemons[host]; d != nil && !d.done {
		vsignal.Deliver(d.id)
	}
}

func (h *H) stopDaemons() {
	for _, d := range h.allDaemons {
		if !d.done {
			vsignal.Deliver(d.id)
		}
	}
	for i := 0; i < 20; i++ {
		all := true
		for _, d := range h.allDaemons {
			if !d.done {
				all = false
			}
		}
		if all {
			break
		}
		h.W.Advance(3 * time.Second)
	}
	for _, d := range h.allDaemons {
		if !d.done {
			// does not stop on SIGTERM: make its calls fail so that the bubble can end
			h.W.Crash(d.id)
		}
		d.app.loggerCloser.Close()
	}
	h.W.Advance(10 * time.Second)
}

// daemonDynamics installs replication progress and the client workload (one commit attempt per
// virtual second on every host that would accept a client write).
func (h *H) daemonDynamics(workload bool) {
	w := h.W
	w.IdleEvery = time.Second
	tickNo := 0
	w.OnIdle = func() {
		tickNo++
		for _, x := range h.Spec.AllHosts() {
			w.Replicate(x)
			if tickNo%2 == 0 { // SQL threads trail the IO threads: received-but-unapplied tails exist half of the time
				w.Apply(x)
			}
		}
		if workload {
			for _, x := range h.Spec.HA {
				if w.Servers[x].Accepts(w) {
					w.Write(x)
				}
			}
			for _, x := range h.Spec.AllHosts() {
				w.Replicate(x)
			}
		}
	}
}

// ackViolations checks "no second node acknowledges": in the time-ordered list of acknowledged
// commits a change of the acknowledging host from Y to X requires a promotion of X in between.
func ackViolations(w *sim.World, promos []promo) []string {
	var out []string
	var last *sim.Txn
	for _, t := range w.Ledger {
		if t.Status != sim.TxnAcked {
			continue
		}
		if last != nil && last.Host != t.Host {
			ok := false
			for _, p := range promos {
				if p.host == t.Host && p.at <= t.AckAt && p.at >= last.At {
					ok = true
				}
			}
			if !ok {
				out = append(out, fmt.Sprintf("%s acknowledged %s at %v after %s acknowledged %s at %v without a promotion of %s in between", t.Host, t.ID, t.AckAt, last.Host, last.ID, last.AckAt, t.Host))
			}
		}
		last = t
	}
	return out
}

type promo struct {
	host string
	at   time.Duration
}

// promoMonitor records promotions (read_only = 0 reaching a host other than the recorded master).
func (h *H) promoMonitor(promos *[]promo) {
	h.W.OnApply = append(h.W.OnApply, func(ap *sim.Applied) {
		if ap.Effect && ap.Call.Kind == "sql" && ap.Call.Op == "SET_WRITABLE" && ap.Call.Target != h.MasterKey() {
			*promos = append(*promos, promo{ap.Call.Target, h.W.Now()})
		}
	})
}

// holderMonitor (C03 part B): every cluster-wide action must come from the process that owns the
// manager lock znode at that instant.
func (h *H) holderMonitor(report func(string)) {
	w := h.W
	w.OnApply = append(w.OnApply, func(ap *sim.Applied) {
		if !ap.Effect || !strings.Contains(ap.Call.Proc, ".") || strings.HasPrefix(ap.Call.Proc, "cli") {
			return
		}
		host := w.Procs[ap.Call.Proc].Host
		wide := false
		what := ""
		if ap.Call.Kind == "sql" && ap.Call.Mut && ap.Changed && ap.Call.Target != host {
			switch ap.Call.Op {
			case "SET_SUPER_RO", "SET_RO_NOSUPER", "STOP_REPLICA_IO_THREAD", "KILL", "OFFLINE_ON", "SS_OFF":
				// fencing statements of the freeze phases: the property itself says the lock is
				// re-confirmed AFTER freezing, so these may come from a manager deposed meanwhile
				h.W.Counters["freeze_statements_by_non_holder_tolerated"]++
			default:
				wide, what = true, "statement "+ap.Call.Op
			}
		}
		if ap.Call.Kind == "zk" && ap.Call.Mut {
			for _, k := range []string{"/master", "/active_nodes", "/last_switch", "/last_rejected_switch"} {
				if ap.Call.Target == vns+k {
					wide, what = true, "write of "+k[1:]
				}
			}
		}
		if !wide {
			return
		}
		if owner := dcsLockOwner(h); owner != ap.Call.Proc {
			report(what + "|" + fmt.Sprintf("%s performed a cluster-wide action (%s at %s) at %v while the manager lock is owned by %q", ap.Call.Proc, what, ap.Call.Target, w.Now(), owner))
		}
	})
}
