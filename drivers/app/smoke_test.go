//go:build verif

package app

import (
	"fmt"
	"os"
	"time"

	"github.com/yandex/mysync/internal/verif/vt"
)

func init() { verifChecks["SMOKE"] = checkSmoke }

func checkSmoke(r *vt.Run) {
	spec := Spec{HA: []string{"h1", "h2", "h3"}}
	t0 := time.Now()
	n := 1
	if os.Getenv("SMOKE_N") != "" {
		fmt.Sscanf(os.Getenv("SMOKE_N"), "%d", &n)
	}
	for i := 0; i < n; i++ {
		Bubble(r.T, spec, func(h *H) {
			h.BuildConverged()
			h.W.LogStmts = i == 0
			h.StartAll()
			h.HealthAll()
			a := h.Apps["h1"]
			h.Tick(a)
			h.Tick(a)
			if i == 0 {
				for _, l := range h.W.StmtLog {
					fmt.Println(l)
				}
				fmt.Println(h.Canon())
				fmt.Println("unknown:", h.W.Unknown, "panics:", h.W.Panics, "points:", len(h.W.Trace))
			}
			r.Eval()
		})
	}
	fmt.Printf("%d executions in %v\n", n, time.Since(t0))
}
