//go:build verif

package app

// C17 Offline-mode policy. Real manager iterations (repairOfflineMode inside stateManager) on
// constructed clusters; every OFFLINE statement reaching a fake server must be admissible under
// the statement's clauses given the state at the start of the pass and the statements issued
// earlier in the same pass. The iteration order of the replica map is an enumerated input.

import (
	"fmt"
	"math"
	"strings"
	"time"

	"github.com/yandex/mysync/internal/mysql"
	"github.com/yandex/mysync/internal/verif/sim"
	"github.com/yandex/mysync/internal/verif/vmap"
	"github.com/yandex/mysync/internal/verif/vt"
)

func init() { verifChecks["C17"] = checkC17 }

const (
	c17Dis      = 10.0
	c17En       = 100.0
	c17Interval = 60
)

var c17Lags = []float64{9.999, 10, 10.001, 99.999, 100, 100.001, math.NaN()} // NaN = unknown
var c17LagNames = []string{"dis-e", "dis", "dis+e", "en-e", "en", "en+e", "unknown"}

type c17Rep struct {
	Host    string `json:"host"`
	Offline bool   `json:"offline"`
	Lag     int    `json:"lag"`     // index into c17Lags
	Repl    int    `json:"repl"`    // 0 fine, 1 error (not permanent), 2 broken SQL 1146, 3 broken IO 13114, 4 both threads in error: SQL 1062 (not permanent) and IO 13114 (permanent)
	Resetup int    `json:"resetup"` // 0 negative+fresh, 1 positive, 2 older than server start, 3 absent
}

func (x c17Rep) String() string {
	return fmt.Sprintf("%s(off=%v lag=%s repl=%d resetup=%d)", x.Host, x.Offline, c17LagNames[x.Lag], x.Repl, x.Resetup)
}

type c17Case struct {
	Sep           string   `json:"separator"`
	Pct           int      `json:"pct"`
	MasterRO      bool     `json:"master_ro"`
	// MasterNoSuper (with MasterRO): read_only=1 but super_read_only=0 (what critical disk usage with
	// keep_super_writable_on_critical_disk_usage, or an operator, leaves): the master is not writable
	MasterNoSuper bool `json:"master_read_only_without_super,omitempty"`
	MasterOffline bool     `json:"master_offline"`
	MasterMarked  bool     `json:"master_marked"`
	Reps          []c17Rep `json:"replicas"`
	Perm          int      `json:"map_order"`
	Advance       []int    `json:"advance_s"`         // seconds before pass 2,3,...; len+1 passes
	Handover      int      `json:"handover_at"`       // pass index before which a fresh manager takes over (0 = never)
	OldShutdown   bool     `json:"old_last_shutdown"` // the limiter key exists and is older than the interval
}

func (c c17Case) String() string {
	var rs []string
	for _, x := range c.Reps {
		rs = append(rs, x.String())
	}
	if c.MasterNoSuper {
		cc := c
		cc.MasterNoSuper = false
		return cc.String() + " master-read-only-without-super"
	}
	return fmt.Sprintf("sep=%q pct=%d masterRO=%v masterOffline=%v marked=%v order=%d adv=%v handover=%d reps=[%s]", c.Sep, c.Pct, c.MasterRO, c.MasterOffline, c.MasterMarked, c.Perm, c.Advance, c.Handover, strings.Join(rs, " "))
}

func c17Zone(host, sep string) string {
	if sep == "" {
		return ""
	}
	if i := strings.Index(host, sep); i >= 0 {
		return host[:i]
	}
	return ""
}

const c17Master = "az1-m0"

type c17Snap struct {
	offline bool
	lag     float64 // NaN unknown
	broken  bool
	resetup int
}

func c17Run(r *vt.Run, c c17Case) {
	r.Eval()
	ha := []string{c17Master}
	for _, x := range c.Reps {
		ha = append(ha, x.Host)
	}
	sepYaml := "'" + c.Sep + "'"
	spec := Spec{HA: ha, CustomLag: true, Conf: map[string]string{
		"offline_mode_enable_lag": "100s", "offline_mode_disable_lag": "10s", "offline_mode_max_offline_pct": fmt.Sprint(c.Pct),
		"offline_mode_az_separator": sepYaml, "offline_mode_enable_interval": fmt.Sprintf("%ds", c17Interval)}}
	Bubble(r.T, spec, func(h *H) {
		vmap.Perm = c.Perm
		h.BuildConverged()
		w := h.W
		w.LogStmts = r.Replay != nil
		m := w.Servers[c17Master]
		m.ReadOnly, m.SuperRO = c.MasterRO, c.MasterRO && !c.MasterNoSuper
		m.Offline = c.MasterOffline
		if c.MasterMarked {
			w.ZK.Put(vns+"/recovery/"+c17Master, "null") // what the daemon itself writes (json null)
		}
		for _, x := range c.Reps {
			s := w.Servers[x.Host]
			s.Offline = x.Offline
			if !math.IsNaN(c17Lags[x.Lag]) {
				v := c17Lags[x.Lag]
				s.Lag = &v
			}
			switch x.Repl {
			case 1:
				s.SQLRunning, s.SQLErrno, s.SQLError = false, 1062, "Duplicate entry"
			case 2:
				s.SQLRunning, s.SQLErrno, s.SQLError = false, 1146, "Table doesn't exist"
			case 3:
				s.IORunning, s.IOErrno, s.IOError = false, 13114, "Got fatal error 1236"
			case 4:
				s.SQLRunning, s.SQLErrno, s.SQLError = false, 1062, "Duplicate entry"
				s.IORunning, s.IOErrno, s.IOError = false, 13114, "Got fatal error 1236"
			}
			now := time.Now()
			switch x.Resetup {
			case 0:
				w.ZK.Put(vns+"/resetup_status/"+x.Host, jsonStr(mysql.ResetupStatus{UpdateTime: now.Add(time.Second), Status: false}))
			case 1:
				w.ZK.Put(vns+"/resetup_status/"+x.Host, jsonStr(mysql.ResetupStatus{UpdateTime: now.Add(time.Second), Status: true}))
			case 2:
				w.ZK.Put(vns+"/resetup_status/"+x.Host, jsonStr(mysql.ResetupStatus{UpdateTime: now.Add(-time.Hour), Status: false}))
			}
		}
		if c.OldShutdown {
			w.ZK.Put(vns+"/last_shutdown_node_time", jsonStr(time.Now().Add(-time.Hour)))
		}
		h.InjectHealth()
		type stmt struct {
			host string
			on   bool
			at   time.Duration
		}
		var stmts []stmt
		w.OnApply = append(w.OnApply, func(ap *sim.Applied) {
			if ap.Effect && ap.Call.Kind == "sql" && (ap.Call.Op == "OFFLINE_ON" || ap.Call.Op == "OFFLINE_OFF") {
				stmts = append(stmts, stmt{ap.Call.Target, ap.Call.Op == "OFFLINE_ON", w.Now()})
			}
		})
		a := h.Start(c17Master)
		var brokenOnTimes []time.Duration
		passes := len(c.Advance) + 1
		for p := 0; p < passes; p++ {
			if p > 0 {
				w.Advance(time.Duration(c.Advance[p-1]) * time.Second)
			}
			if c.Handover != 0 && c.Handover == p {
				// the manager process is replaced by a fresh one (empty in-memory state)
				w.Crash(h.ID(a))
				for _, zc := range w.Procs[h.ID(a)].ZK {
					w.ZK.Expire(zc)
				}
				a = h.Start(c17Master)
			}
			// snapshot at pass start
			snap := map[string]c17Snap{}
			for _, x := range c.Reps {
				s := w.Servers[x.Host]
				lag := math.NaN()
				if s.Lag != nil {
					lag = *s.Lag
				}
				snap[x.Host] = c17Snap{s.Offline, lag, x.Repl >= 2, x.Resetup}
			}
			masterOfflineStart := m.Offline
			masterROStart := m.ReadOnly
			stmts = stmts[:0]
			h.InjectHealth()
			h.Tick(a)
			if len(w.Panics) > 0 || len(w.Unknown) > 0 {
				r.Violate("C17/0-engine", fmt.Sprintf("panics=%v unknown=%v in %s", w.Panics, w.Unknown, c), c)
				return
			}
			where := fmt.Sprintf("pass %d of %s", p, c)
			onThisPass := map[string]bool{}
			pendingZone := map[string]int{}
			for _, st := range stmts {
				if st.host == c17Master {
					if st.on {
						r.Violate("C17/5-master-kept-online", "master was taken offline: "+where, c)
					} else if c.MasterMarked {
						r.Violate("C17/5-master-kept-online", "master marked for recovery was brought online: "+where, c)
					}
					continue
				}
				sx, ok := snap[st.host]
				if !ok {
					r.Violate("C17/0-engine", "offline statement at unknown host "+st.host+": "+where, c)
					continue
				}
				lagKnown := !math.IsNaN(sx.lag)
				if !st.on {
					r.Count("off_statements")
					switch {
					case !lagKnown || sx.lag > c17Dis:
						r.Violate("C17/2-online-only-at-or-below-disable-lag", fmt.Sprintf("%s brought online with lag %v: %s", st.host, sx.lag, where), c)
					case sx.broken:
						r.Violate("C17/2-online-not-when-permanently-broken", fmt.Sprintf("%s brought online although replication is permanently broken: %s", st.host, where), c)
					case sx.resetup != 0:
						r.Violate("C17/2-online-needs-fresh-negative-resetup-status", fmt.Sprintf("%s brought online with resetup status kind %d: %s", st.host, sx.resetup, where), c)
					}
					continue
				}
				// ON
				zone := c17Zone(st.host, c.Sep)
				total, off := 0, 0
				for _, y := range c.Reps {
					if c17Zone(y.Host, c.Sep) == zone {
						total++
						if snap[y.Host].offline {
							off++
						}
					}
				}
				capOK := false
				if c.Pct >= 100 {
					capOK = true
				} else if c.Pct > 0 && total > 0 {
					capOK = int(math.Floor(100*float64(off+pendingZone[zone]+1)/float64(total))) <= c.Pct
				}
				lagJust := lagKnown && sx.lag > c17En && !masterROStart && capOK && !onThisPass[st.host]
				if lagJust {
					r.Count("on_for_lag")
				} else if sx.broken {
					r.Count("on_for_broken")
					brokenOnTimes = append(brokenOnTimes, st.at)
				} else {
					clause := "C17/1-offline-only-above-enable-lag"
					why := fmt.Sprintf("lag %v is not above the enable threshold", sx.lag)
					if lagKnown && sx.lag > c17En {
						if masterROStart {
							clause, why = "C17/1-offline-only-while-master-writable", "the master is read-only"
						} else if !capOK {
							clause, why = "C17/1-zone-cap", fmt.Sprintf("zone %q: %d of %d offline at pass start, %d taken offline earlier in this pass, cap %d%%", zone, off, total, pendingZone[zone], c.Pct)
						}
					} else if lagKnown && sx.lag > c17Dis {
						clause = "C17/3-hysteresis-band-unchanged"
					}
					r.Violate(clause, fmt.Sprintf("%s taken offline but %s: %s", st.host, why, where), c)
				}
				if !onThisPass[st.host] {
					onThisPass[st.host] = true
					pendingZone[zone]++
				}
			}
			// no statement at all for a healthy replica inside the band is covered by the rules above;
			// cap denials observed (coverage)
			for _, x := range c.Reps {
				sx := snap[x.Host]
				if !sx.offline && !math.IsNaN(sx.lag) && sx.lag > c17En && !masterROStart && !onThisPass[x.Host] {
					r.Count("lagging_replica_kept_online_by_cap")
				}
			}
			if masterOfflineStart && !c.MasterMarked && m.Offline {
				r.Violate("C17/5-master-kept-online", "master is still offline after the pass although it is not marked for recovery: "+where, c)
			}
			if len(stmts) > 0 {
				r.Nontrivial(c.String())
			}
			r.Outcome(fmt.Sprintf("stmts=%d", min(len(stmts), 5)))
		}
		for i := 1; i < len(brokenOnTimes); i++ {
			if d := brokenOnTimes[i] - brokenOnTimes[i-1]; d < c17Interval*time.Second {
				r.Violate("C17/4-broken-at-most-one-per-interval", fmt.Sprintf("two permanently broken replicas taken offline %v apart (interval %ds): %s", d, c17Interval, c), c)
			}
		}
		if r.Replay != nil {
			for _, l := range w.StmtLog {
				if strings.Contains(l, "offline_mode") || strings.Contains(l, "last_shutdown") {
					r.Logf("%s", l)
				}
			}
		}
	})
}

func checkC17(r *vt.Run) {
	var rc c17Case
	if r.ReplayInto(&rc) {
		c17Run(r, rc)
		return
	}
	idx := 0
	run := func(c c17Case) {
		idx++
		if !r.Mine(idx) {
			return
		}
		if idx%3000 == 5 {
			r.Sample(c)
		}
		r.Crumb(c)
		c17Run(r, c)
	}
	// Grid A: single replica, the whole per-replica decision table
	for _, off := range []bool{false, true} {
		for lag := range c17Lags {
			for repl := 0; repl < 5; repl++ {
				for rs := 0; rs < 4; rs++ {
					for _, mro := range []bool{false, true} {
						for _, pct := range []int{0, 50, 100} {
							for _, mm := range [][2]bool{{false, false}, {true, false}, {true, true}} {
								run(c17Case{Sep: "-", Pct: pct, MasterRO: mro, MasterOffline: mm[0], MasterMarked: mm[1],
									Reps: []c17Rep{{"az1-r1", off, lag, repl, rs}}})
								if mro {
									run(c17Case{Sep: "-", Pct: pct, MasterRO: true, MasterNoSuper: true, MasterOffline: mm[0], MasterMarked: mm[1],
										Reps: []c17Rep{{"az1-r1", off, lag, repl, rs}}})
								}
							}
						}
					}
				}
			}
		}
	}
	if r.Expired() {
		return
	}
	// Grid B: zone cap with every iteration order of the replica map
	alpha := []c17Rep{
		{"", false, 5, 0, 0}, // online, lag above enable
		{"", false, 0, 0, 0}, // online, fine
		{"", true, 1, 0, 0},  // offline, eligible to come online
		{"", true, 5, 0, 0},  // offline, lagging
		{"", false, 3, 2, 0}, // online, permanently broken, lag inside the band
	}
	type layout struct {
		hosts []string
		sep   string
	}
	layouts := []layout{
		{[]string{"az1-r1", "az1-r2", "az1-r3"}, "-"},
		{[]string{"az1-r1", "az1-r2", "az2-r3"}, "-"},
		{[]string{"az1-r1", "plain2", "plain3"}, "-"},
		{[]string{"az1-r1", "az1-r2", "az2-r3"}, ""},
		// a separator of several characters, each of which also occurs inside the zone names
		{[]string{"bd1.db.r1", "bd1.db.r2", "bb2.db.r3"}, ".db."},
		// zone names with upper-case letters, two of them equal up to case (seeded/C17-h): zones are
		// compared as written, at the filter and at the count of hosts taken offline in this pass
		{[]string{"azB-r1", "azB-r2", "azb-r3"}, "-"},
	}
	pcts := []int{0, 1, 32, 33, 34, 50, 66, 99, 100}
	nrep := 3
	if r.Thorough() {
		nrep = 4
		alpha = append(alpha[:3:3], alpha[4])
		layouts = []layout{
			{[]string{"az1-r1", "az1-r2", "az1-r3", "az1-r4"}, "-"},
			{[]string{"az1-r1", "az1-r2", "az2-r3", "az2-r4"}, "-"},
			{[]string{"az1-r1", "az1-r2", "az1-r3", "plain4"}, "-"},
			{[]string{"az1-r1", "az1-r2", "az2-r3", "az2-r4"}, ""},
			{[]string{"bd1.db.r1", "bd1.db.r2", "bb2.db.r3", "bb2.db.r4"}, ".db."},
			{[]string{"azB-r1", "azB-r2", "azB-r3", "azb-r4"}, "-"},
		}
	}
	r.Bound("grid_b_replicas", nrep)
	nperm := 1
	for i := 2; i <= nrep; i++ {
		nperm *= i
	}
	total := 1
	for i := 0; i < nrep; i++ {
		total *= len(alpha)
	}
	for _, lay := range layouts {
		for _, pct := range pcts {
			for code := 0; code < total; code++ {
				reps := make([]c17Rep, nrep)
				x := code
				for i := 0; i < nrep; i++ {
					reps[i] = alpha[x%len(alpha)]
					reps[i].Host = lay.hosts[i]
					x /= len(alpha)
				}
				// the master's name sorts first, so permutation indices 0..nrep!-1 enumerate exactly
				// the orders of the replicas with the master visited first
				for perm := 0; perm < nperm; perm++ {
					if idx%256 == 0 && r.Expired() {
						return
					}
					run(c17Case{Sep: lay.sep, Pct: pct, Reps: reps, Perm: perm, OldShutdown: true})
				}
			}
		}
	}
	// Grid C: the cluster-wide limiter for permanently broken replicas across passes and hand-overs
	broken := []c17Rep{{"az1-r1", false, 3, 2, 0}, {"az1-r2", false, 3, 3, 0}, {"az2-r3", false, 0, 2, 0}}
	for adv := 0; adv < 16; adv++ {
		var advs []int
		for i := 0; i < 4; i++ {
			if adv&(1<<uint(i)) != 0 {
				advs = append(advs, c17Interval+1)
			} else {
				advs = append(advs, 5)
			}
		}
		for _, ho := range []int{0, 2, 3, 4} {
			for _, perm := range []int{0, 5} {
				run(c17Case{Sep: "-", Pct: 100, Reps: broken, Perm: perm, Advance: advs, Handover: ho})
			}
		}
	}
}
