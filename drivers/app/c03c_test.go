//go:build verif

package app

// C03 part C: the application-level gate in front of the lock (App.AcquireLock with its
// quorum-loss delays, manager_switchover on). BFS over histories of two real instances: manager
// iterations, the manager host losing sight of the other MySQL servers (quorum loss), its
// ZooKeeper session expiring and coming back, time. After every iteration that leaves an
// instance in the manager state, the lock znode must belong to that process's live session:
// every path into that state passes the gate, and nothing else runs during a step-mode iteration.

import (
	"fmt"
	"time"

	"github.com/yandex/mysync/internal/verif/vt"
)

type c03cCase struct {
	Part string   `json:"part"`
	Hist []string `json:"history"`
}

var c03cAlphabet = []string{"tick2", "tick3", "cutSQL2", "healSQL2", "zkLoss2", "zkHeal2", "adv5", "adv20"}

func c03cRun(r *vt.Run, c c03cCase) (canon string) {
	r.Eval()
	spec := Spec{HA: []string{"h1", "h2", "h3"}, Conf: map[string]string{"failover": "false", "manager_switchover": "true",
		"manager_election_delay_after_quorum_loss": "15s", "manager_lock_acquire_delay_after_quorum_loss": "45s"}}
	violate := func(clause, detail string) {
		r.Violate("C03/"+clause, detail+fmt.Sprintf("; history %v", c.Hist), c)
	}
	Bubble(r.T, spec, func(h *H) {
		h.BuildConverged()
		w := h.W
		w.LogStmts = r.Replay != nil
		a2 := h.Start("h2")
		a3 := h.Start("h3")
		h.InjectHealth()
		h.Tick(a2)
		h.Tick(a3)
		tick := func(a *App, host string) {
			h.InjectHealth() // the hosts' own health records: every MySQL is up
			np := len(w.Panics)
			h.Tick(a)
			if len(w.Panics) > np || len(w.Unknown) > 0 {
				violate("0-engine", fmt.Sprintf("panics=%v at %s unknown=%v", w.Panics, h.PanicWhere(), w.Unknown))
				return
			}
			if a.state == stateManager {
				r.Count("iterations_ending_in_manager_state")
				if owner := dcsLockOwner(h); owner != h.ID(a) {
					violate("4-only-the-lock-holder-acts/manager-state-without-the-lock", fmt.Sprintf("%s finished an iteration in the manager state while the manager lock is owned by %q", h.ID(a), owner))
				}
			}
		}
		for _, ev := range c.Hist {
			switch ev {
			case "tick2":
				tick(a2, "h2")
			case "tick3":
				tick(a3, "h3")
			case "cutSQL2", "healSQL2":
				// the manager host cannot reach the other hosts' MySQL (their own mysyncs and ZooKeeper can)
				w.SetCut("h2", "h1", ev == "cutSQL2")
				w.SetCut("h2", "h3", ev == "cutSQL2")
			case "zkLoss2":
				// h2 is cut off from ZooKeeper long enough for its session to expire
				w.SetCut("h2", "zk", true)
				w.ZK.SyncLinks()
				for _, zc := range w.Procs[h.ID(a2)].ZK {
					w.ZK.Expire(zc)
				}
				w.Settle()
			case "zkHeal2":
				w.SetCut("h2", "zk", false)
				w.ZK.SyncLinks()
				w.Settle()
			case "adv5":
				w.Advance(5 * time.Second)
			case "adv20":
				w.Advance(20 * time.Second)
			}
		}
		canon = h.Canon()
		r.Outcome(fmt.Sprintf("h2=%s h3=%s owner=%s", a2.state, a3.state, dcsLockOwner(h)))
		if r.Replay != nil {
			for _, l := range w.StmtLog {
				r.Logf("%s", l)
			}
		}
	})
	return canon
}

func checkC03C(r *vt.Run) {
	depth := 4
	if r.Thorough() {
		depth = 6
	}
	r.Bound("part_c_depth", depth)
	enabled := func(hist []string, ev string) bool {
		last := func(on, off string) bool {
			for i := len(hist) - 1; i >= 0; i-- {
				if hist[i] == on {
					return true
				}
				if hist[i] == off {
					return false
				}
			}
			return false
		}
		n := 0
		for _, x := range hist {
			if x == ev {
				n++
			}
		}
		switch ev {
		case "cutSQL2":
			return !last("cutSQL2", "healSQL2")
		case "healSQL2":
			return last("cutSQL2", "healSQL2")
		case "zkLoss2":
			return !last("zkLoss2", "zkHeal2") && n < 1
		case "zkHeal2":
			return last("zkLoss2", "zkHeal2")
		case "adv5", "adv20":
			return n < 2
		}
		return true
	}
	runner := func(hist []string) string {
		c := c03cCase{"C", hist}
		r.Crumb(c)
		if len(hist) == 5 && hist[2] == "zkLoss2" && hist[4] == "zkHeal2" {
			r.Sample(c)
		}
		return c03cRun(r, c)
	}
	vBFS(r, "c03c-init|", c03cAlphabet, depth, enabled, runner)
	// from the state in which the manager has just noticed that it lost quorum
	prefix := []string{"cutSQL2", "tick2"}
	vBFS(r, "c03c-lostquorum|", c03cAlphabet, depth+1, func(hist []string, ev string) bool {
		return enabled(append(append([]string(nil), prefix...), hist...), ev)
	}, func(hist []string) string {
		return runner(append(append([]string(nil), prefix...), hist...))
	})
}
