//go:build verif

package app

// C16 Cascade replicas: source resolution terminates, never self, never quorum.
// Part A: the real findBestStreamFrom on ALL stream-from maps over up to 3 cascade hosts + 2 HA
// hosts (every function cascade host -> {any host, ""}: chains, cycles, self-references,
// references to HA nodes) x health of every referenced host x what the replica streams from now.
// Part B: the guarded move through real manager iterations: a CHANGE SOURCE that moves a
// configured cascade replica is applied only when the new source's transactions contain its own;
// cascade replicas never appear in the published list.

import (
	"fmt"
	"strings"
	"time"

	nodestate "github.com/yandex/mysync/internal/app/node_state"
	"github.com/yandex/mysync/internal/config"
	"github.com/yandex/mysync/internal/mysql"
	"github.com/yandex/mysync/internal/verif/sim"
	"github.com/yandex/mysync/internal/verif/vt"
)

func init() { verifChecks["C16"] = checkC16 }

// health of a referenced host
const (
	gHealthy = iota
	gOffline
	gLagging
	gStopped
	gDead
	gNKinds
)

var c16KindNames = []string{"healthy", "offline", "lagging", "stopped", "dead"}

type c16ACase struct {
	K       int      `json:"cascade_hosts"`
	SF      []string `json:"stream_from"`    // for c1..cK
	Health  []int    `json:"health"`         // for a, c2..cK
	Current string   `json:"current_source"` // what c1 streams from now ("" = not replicating)
}

func c16State(kind int, source string) *nodestate.NodeState {
	small, big := 1.0, 100000.0
	st := &nodestate.NodeState{PingOk: true, SlaveState: &nodestate.SlaveState{MasterHost: source, ReplicationState: mysql.ReplicationRunning, ReplicationLag: &small}}
	switch kind {
	case gOffline:
		st.IsOffline = true
	case gLagging:
		st.SlaveState.ReplicationLag = &big
	case gStopped:
		st.SlaveState.ReplicationState = mysql.ReplicationStopped
		st.SlaveState.ReplicationLag = nil
	case gDead:
		st.PingOk = false
		st.SlaveState = nil
	}
	return st
}

func c16Healthy(kind int) bool { return kind == gHealthy }

func c16ARun(r *vt.Run, app *App, c c16ACase) {
	r.Eval()
	hosts := []string{"m", "a"}
	for i := 1; i <= c.K; i++ {
		hosts = append(hosts, fmt.Sprintf("c%d", i))
	}
	health := map[string]int{"m": gHealthy, "a": c.Health[0], "c1": gHealthy}
	for i := 2; i <= c.K; i++ {
		health[fmt.Sprintf("c%d", i)] = c.Health[i-1]
	}
	sf := map[string]string{}
	topo := map[string]mysql.CascadeNodeConfiguration{}
	for i := 1; i <= c.K; i++ {
		h := fmt.Sprintf("c%d", i)
		sf[h] = c.SF[i-1]
		topo[h] = mysql.CascadeNodeConfiguration{StreamFrom: c.SF[i-1]}
	}
	cs := map[string]*nodestate.NodeState{}
	cs["m"] = &nodestate.NodeState{PingOk: true, IsMaster: true, MasterState: &nodestate.MasterState{}}
	cs["a"] = c16State(health["a"], "m")
	for i := 1; i <= c.K; i++ {
		h := fmt.Sprintf("c%d", i)
		src := sf[h]
		if src == "" {
			src = "m"
		}
		cs[h] = c16State(health[h], src)
		cs[h].IsCascade = true
	}
	// c1's present replication
	if c.Current == "" {
		cs["c1"].SlaveState.ReplicationState = mysql.ReplicationStopped
	} else {
		cs["c1"].SlaveState.MasterHost = c.Current
	}
	node, _ := mysql.NewNode(app.config, app.logger, "c1")
	type res struct {
		v   string
		pan any
	}
	ch := make(chan res, 1)
	go func() {
		defer func() {
			if p := recover(); p != nil {
				ch <- res{"", p}
			}
		}()
		ch <- res{app.findBestStreamFrom(node, cs, "m", topo), nil}
	}()
	var got res
	select {
	case got = <-ch:
	case <-time.After(5 * time.Second):
		select {
		case got = <-ch:
		case <-time.After(5 * time.Second):
			r.Violate("C16/1-resolution-terminates", fmt.Sprintf("findBestStreamFrom did not return within 10 s for %+v", c), c16Case{A: &c})
			r.Abort("a call under test did not terminate; worker stopped after reporting it")
			return
		}
	}
	if got.pan != nil {
		r.Violate("C16/1-resolution-terminates", fmt.Sprintf("findBestStreamFrom panicked: %v for %+v", got.pan, c), c)
		return
	}
	// reference
	want := ""
	seen := map[string]bool{"c1": true}
	cur := "c1"
	first := true
	for {
		next := sf[cur]
		if next == "" {
			want = "m"
			break
		}
		if seen[next] {
			want = "m"
			break
		}
		if first && c.Current == next {
			want = next // already streaming from the configured source
			break
		}
		first = false
		if next == "m" || c16Healthy(health[next]) {
			want = next
			break
		}
		seen[next] = true
		cur = next
	}
	r.Outcome("result=" + map[bool]string{true: "master", false: "other"}[got.v == "m"])
	if want != "m" || sf["c1"] != "m" && sf["c1"] != "" {
		r.Nontrivial(fmt.Sprintf("%+v", c))
	}
	if got.v == "c1" {
		r.Violate("C16/2-never-the-replica-itself", fmt.Sprintf("resolved source of c1 is c1 itself for %+v", c), c)
	}
	if got.v != want {
		r.Violate("C16/3-configured-source-nearest-healthy-ancestor-or-master", fmt.Sprintf("resolved %q, want %q for stream_from=%v health(a,c2..)=%v current=%q", got.v, want, c.SF, c.Health, c.Current), c)
	}
}

type c16BCase struct {
	Relation string `json:"replica_vs_candidate"` // behind equal ahead diverged
	Running  bool   `json:"replica_running"`
	H2       int    `json:"configured_source_condition"` // gOffline gLagging gStopped gDead
	Reconf   string `json:"stream_from_changed_to"`      // "" none, h1, c2
	Progress bool   `json:"candidate_catches_up_later"`
	// Late: the operator changes stream_from after the manager's first iteration (the host is already
	// in the manager's registry) instead of before it
	Late bool `json:"stream_from_changed_after_first_iteration,omitempty"`
	// FailRead >= 0: this read of the coordination service in the first iteration fails with an error
	// the client does not retry (b = 1)
	FailRead *int `json:"failing_read_of_first_iteration,omitempty"`
}

var c16BPoints []sim.Point

func c16BRun(r *vt.Run, c c16BCase) {
	r.Eval()
	spec := Spec{HA: []string{"h1", "h2"}, Cascade: map[string]string{"c1": "h2", "c2": "h1"}, CustomLag: true,
		Conf: map[string]string{"failover": "false", "stream_from_reasonable_lag": "300s", "wait_start_replication_timeout": "2s"}}
	Bubble(r.T, spec, func(h *H) {
		h.BuildConverged()
		w := h.W
		w.LogStmts = r.Replay != nil
		m := w.Servers["h1"]
		c1, h2, c2 := w.Servers["c1"], w.Servers["h2"], w.Servers["c2"]
		zero, big := 0.0, 100000.0
		for _, s := range []*sim.Server{c1, h2, c2} {
			s.Lag = &zero
		}
		// the candidate new source will be the master h1 (or c2); build the GTID relation c1 vs it
		cand := m
		if c.Reconf == "c2" {
			cand = c2
		}
		switch c.Relation {
		case "behind":
			cand.Executed.Add(m.UUID, 4)
			if cand != m {
				m.Executed.Add(m.UUID, 4)
			}
		case "ahead":
			// c1 got a transaction through h2 that the candidate does not have yet
			c1.Executed.Add(m.UUID, 4)
			h2.Executed.Add(m.UUID, 4)
			if cand != m || c.Progress {
				m.Executed.Add(m.UUID, 4) // exists on the master; c2 just has not applied it yet
			}
			if cand == m && !c.Progress {
				// impossible for a healthy master to lack it unless it was errant on h2
			}
		case "diverged":
			c1.Executed.Add(sim.UUIDFor("foreign"), 1)
			cand.Executed.Add(m.UUID, 4)
		}
		if !c.Running {
			c1.IORunning, c1.SQLRunning = false, false
		}
		switch c.H2 {
		case gOffline:
			h2.Offline = true
		case gLagging:
			h2.Lag = &big
		case gStopped:
			h2.IORunning, h2.SQLRunning = false, false
		case gDead:
			h2.Crash(w)
		}
		if c.Reconf != "" && !c.Late {
			w.ZK.Put(vns+"/cascade_nodes/c1", jsonStr(map[string]string{"stream_from": c.Reconf}))
		}
		moves := 0
		w.OnApply = append(w.OnApply, func(ap *sim.Applied) {
			if !ap.Effect || ap.Call.Kind != "sql" || ap.Call.Op != "CHANGE_SOURCE" {
				return
			}
			x := ap.Call.Target
			if !strings.HasPrefix(x, "c") {
				return
			}
			s := w.Servers[x]
			ns := w.Servers[s.Source] // after the statement: the new source
			if ns == nil {
				r.Violate("C16/4-moved-only-to-a-registered-host", fmt.Sprintf("%s re-pointed to unknown host %q", x, s.Source), c)
				return
			}
			if s.Source == x {
				r.Violate("C16/2-never-the-replica-itself", fmt.Sprintf("%s re-pointed to itself", x), c)
			}
			moves++
			if !s.Executed.SubsetOf(ns.Executed) {
				r.Violate("C16/5-moved-only-when-new-source-contains-its-transactions", fmt.Sprintf("%s moved to %s although it holds %s which %s lacks; case %+v", x, ns.Host,
					strings.ReplaceAll(s.Executed.Minus(ns.Executed).String(), "\n", ""), ns.Host, c), c)
			}
		})
		a := h.Start("h1")
		for i := 0; i < 4; i++ {
			h.InjectHealth()
			np := len(w.Panics)
			base := len(w.Trace)
			if i == 0 && c.FailRead != nil {
				w.Plan[base+*c.FailRead] = sim.Deviation{At: base + *c.FailRead, Kind: sim.DevErr, Arg: 1}
			}
			h.Tick(a)
			if i == 0 {
				c16BPoints = append([]sim.Point(nil), w.Trace[base:]...)
			}
			if len(w.Panics) > np || len(w.Unknown) > 0 {
				r.Violate("C16/0-engine", fmt.Sprintf("panics=%v at %s unknown=%v; case %+v", w.Panics, h.PanicWhere(), w.Unknown, c), c)
				return
			}
			for _, x := range h.ActiveNodes() {
				if strings.HasPrefix(x, "c") {
					r.Violate("C16/6-cascade-never-in-active-list", fmt.Sprintf("cascade replica %s in the published list %v", x, h.ActiveNodes()), c)
				}
			}
			w.Advance(5 * time.Second)
			if c.Reconf != "" && c.Late && i == 0 {
				w.ZK.Put(vns+"/cascade_nodes/c1", jsonStr(map[string]string{"stream_from": c.Reconf}))
			}
			if c.Progress && i >= 1 {
				for _, x := range spec.AllHosts() {
					w.Replicate(x)
					w.Apply(x)
				}
				if c.Relation == "ahead" && cand == c2 {
					c2.Executed.AddAll(m.Executed)
				}
			}
		}
		r.Outcome(fmt.Sprintf("moves=%d source=%s", min(moves, 2), c1.Source))
		// the configured source is healthy and has everything the replica has: after the iterations the
		// replica streams from it (the configuration the operator wrote is the one that counts)
		// the configured source is healthy and nothing was re-configured: the replica is left where it is
		if c.Reconf == "" && c.H2 == gHealthy && moves > 0 {
			r.Violate("C16/3-stays-on-its-healthy-configured-source", fmt.Sprintf("c1 streams from its configured source h2, which is healthy, and was re-pointed (now on %s); case %+v", c1.Source, c), c)
		}
		if c.Reconf != "" && (c.Relation == "behind" || c.Relation == "equal") && c1.Source != c.Reconf {
			r.Violate("C16/3-streams-from-the-configured-source-when-it-is-healthy", fmt.Sprintf("stream_from of c1 is %s, which is healthy and contains c1's transactions, but after 4 iterations c1 replicates from %s; case %+v", c.Reconf, c1.Source, c), c)
		}
		if moves > 0 {
			r.Nontrivial(fmt.Sprintf("%+v", c))
		}
		if r.Replay != nil {
			for _, l := range w.StmtLog {
				if !strings.Contains(l, "(no effect)") {
					r.Logf("%s", l)
				}
			}
		}
	})
}

// part C: members of the published list that have meanwhile been re-registered as cascade replicas
type c16CCase struct {
	N     int   `json:"ha_nodes_before"`
	W     int   `json:"configured_count"`
	Other []int `json:"other_replicas"` // per replica h3.. : 0 HA alive, 1 HA dead, 2 re-registered as cascade (alive), 3 cascade and dead
	// MasterAlive: the master does not die; the manager goes on publishing the list, which must not
	// contain a host that is registered as a cascade replica, reachable or not
	MasterAlive bool `json:"master_stays_alive,omitempty"`
}

func c16CRun(r *vt.Run, c c16CCase) {
	r.Eval()
	var ha []string
	for i := 1; i <= c.N; i++ {
		ha = append(ha, fmt.Sprintf("h%d", i))
	}
	spec := Spec{HA: ha, Conf: map[string]string{"failover": "true", "failover_delay": "0s", "failover_cooldown": "1s",
		"rpl_semi_sync_master_wait_for_slave_count": fmt.Sprint(c.W), "slave_catch_up_timeout": "4s", "wait_start_replication_timeout": "2s"}}
	Bubble(r.T, spec, func(h *H) {
		h.BuildConverged()
		w := h.W
		w.LogStmts = r.Replay != nil
		a := h.Start("h2")
		h.InjectHealth()
		h.Tick(a) // h2 is the manager; the list is [h1..hN]
		list := h.ActiveNodes()
		isCascade := map[string]bool{}
		for i, k := range c.Other {
			x := fmt.Sprintf("h%d", i+3)
			if k >= 2 {
				// `mysync host remove x; mysync host add x --stream-from h2`
				w.ZK.Del(vns + "/ha_nodes/" + x)
				w.ZK.Put(vns+"/cascade_nodes/"+x, `{"stream_from":"h2"}`)
				isCascade[x] = true
			}
			if k == 1 || k == 3 {
				w.Servers[x].Crash(w)
			}
		}
		if !c.MasterAlive {
			w.Servers["h1"].Crash(w) // ... and before the list is published again the master dies
		}
		realAlive := 0
		for _, x := range list {
			if x != "h1" && !isCascade[x] && w.Servers[x].Up {
				realAlive++
			}
		}
		quorum := max(len(list)-min(len(list)/2, c.W), 1)
		filed := false
		w.OnApply = append(w.OnApply, func(ap *sim.Applied) {
			if !ap.Effect {
				return
			}
			if ap.Call.Kind == "zk" && ap.Call.Op == "create" && ap.Call.Target == vns+"/switch" {
				filed = true
				r.Count("failovers_filed")
				if realAlive < quorum {
					r.Violate("C16/7-cascade-never-counted-towards-quorum", fmt.Sprintf("automatic failover filed with %d alive HA replicas in the published list %v (cascade now: %v), quorum %d; case %+v", realAlive, list, isCascade, quorum, c), c16Case{C: &c})
				}
			}
			if ap.Call.Kind == "sql" && ap.Call.Op == "SET_WRITABLE" && isCascade[ap.Call.Target] {
				r.Violate("C16/8-cascade-never-promoted", fmt.Sprintf("cascade replica %s made writable; case %+v", ap.Call.Target, c), c16Case{C: &c})
			}
		})
		for i := 0; i < 3; i++ {
			h.InjectHealth()
			np := len(w.Panics)
			h.Tick(a)
			if len(w.Panics) > np || len(w.Unknown) > 0 {
				r.Violate("C16/0-engine", fmt.Sprintf("panics=%v at %s unknown=%v; case %+v", w.Panics, h.PanicWhere(), w.Unknown, c), c16Case{C: &c})
				return
			}
			if c.MasterAlive {
				for _, x := range h.ActiveNodes() {
					if isCascade[x] {
						r.Violate("C16/6-cascade-never-in-active-list", fmt.Sprintf("%s is registered as a cascade replica (up=%v) and is in the list %v published by iteration %d; case %+v", x, w.Servers[x].Up, h.ActiveNodes(), i, c), c16Case{C: &c})
					}
				}
				r.Count("part_c_lists_published_with_master_alive")
			}
			w.Advance(5 * time.Second)
		}
		r.Outcome(fmt.Sprintf("filed=%v enough=%v", filed, realAlive >= quorum))
		r.Nontrivial(fmt.Sprintf("%+v", c))
		if r.Replay != nil {
			for _, l := range w.StmtLog {
				if !strings.Contains(l, "(no effect)") {
					r.Logf("%s", l)
				}
			}
		}
	})
}

// part D: an unhealthy REGISTERED cascade replica is still a cascade replica: it is not one of the
// HA nodes whose replication state decides whether the master really failed
type c16DCase struct {
	Cascade string `json:"cascade_replica_state"` // alive | dead | hung | sql-error
	Master  string `json:"master_state"`          // hung (answers nobody, replicas stay connected) | dead
}

func c16DRun(r *vt.Run, c c16DCase) {
	r.Eval()
	spec := Spec{HA: []string{"h1", "h2", "h3"}, Cascade: map[string]string{"c1": "h2"},
		Conf: map[string]string{"failover": "true", "failover_delay": "0s", "failover_cooldown": "1s", "slave_catch_up_timeout": "4s", "wait_start_replication_timeout": "2s"}}
	Bubble(r.T, spec, func(h *H) {
		h.BuildConverged()
		w := h.W
		w.LogStmts = r.Replay != nil
		a := h.Start("h2")
		h.InjectHealth()
		h.Tick(a)
		c1, m := w.Servers["c1"], w.Servers["h1"]
		switch c.Cascade {
		case "dead":
			c1.Crash(w)
		case "hung":
			c1.Hung = true
		case "sql-error":
			c1.SQLRunning, c1.SQLErrno, c1.SQLError = false, 1062, "Duplicate entry"
		}
		if c.Master == "hung" {
			m.Hung = true
		} else {
			m.Crash(w)
		}
		filed := false
		w.OnApply = append(w.OnApply, func(ap *sim.Applied) {
			if ap.Effect && ap.Call.Kind == "zk" && ap.Call.Op == "create" && ap.Call.Target == vns+"/switch" {
				filed = true
				r.Count("part_d_failovers_filed")
				if c.Master == "hung" {
					r.Violate("C16/7-cascade-never-counted-as-an-ha-node", fmt.Sprintf("automatic failover filed although every HA replica still replicates from the master (which only the manager cannot reach): the %s cascade replica c1 was counted among the HA nodes; case %+v", c.Cascade, c), c16Case{D: &c})
				}
			}
			if ap.Effect && ap.Call.Kind == "sql" && ap.Call.Op == "SET_WRITABLE" && ap.Call.Target == "c1" {
				r.Violate("C16/8-cascade-never-promoted", fmt.Sprintf("cascade replica c1 made writable; case %+v", c), c16Case{D: &c})
			}
		})
		for i := 0; i < 3; i++ {
			h.InjectHealth()
			w.ZK.Del(vns + "/health/h1") // the master's own mysync lost the coordination service too
			np := len(w.Panics)
			h.Tick(a)
			if len(w.Panics) > np || len(w.Unknown) > 0 {
				r.Violate("C16/0-engine", fmt.Sprintf("panics=%v at %s unknown=%v; case %+v", w.Panics, h.PanicWhere(), w.Unknown, c), c16Case{D: &c})
				return
			}
			for _, x := range h.ActiveNodes() {
				if strings.HasPrefix(x, "c") {
					r.Violate("C16/6-cascade-never-in-active-list", fmt.Sprintf("cascade replica %s in the published list %v; case %+v", x, h.ActiveNodes(), c), c16Case{D: &c})
				}
			}
			w.Advance(5 * time.Second)
		}
		r.Outcome(fmt.Sprintf("partD filed=%v master=%s", filed, c.Master))
		r.Nontrivial(fmt.Sprintf("%+v", c))
		if r.Replay != nil {
			for _, l := range w.StmtLog {
				if !strings.Contains(l, "(no effect)") {
					r.Logf("%s", l)
				}
			}
		}
	})
}

type c16Case struct {
	A *c16ACase `json:"resolver,omitempty"`
	B *c16BCase `json:"move,omitempty"`
	C *c16CCase `json:"quorum,omitempty"`
	D *c16DCase `json:"unhealthy_cascade,omitempty"`
}

func checkC16(r *vt.Run) {
	app := &App{logger: &vNop, config: &config.Config{StreamFromReasonableLag: 5 * time.Minute}}
	var rc c16Case
	if r.ReplayInto(&rc) {
		if rc.A != nil {
			c16ARun(r, app, *rc.A)
		}
		if rc.B != nil {
			c16BRun(r, *rc.B)
		}
		if rc.C != nil {
			c16CRun(r, *rc.C)
		}
		if rc.D != nil {
			c16DRun(r, *rc.D)
		}
		return
	}
	defer func() {
		n := 0
		for _, cs := range []string{"alive", "dead", "hung", "sql-error"} {
			for _, ms := range []string{"hung", "dead"} {
				n++
				if !r.Mine(n) {
					continue
				}
				c := c16DCase{cs, ms}
				r.Crumb(c16Case{D: &c})
				c16DRun(r, c)
			}
		}
		for _, nn := range []int{3, 4} {
			for _, wc := range []int{1, 2} {
				total := 1
				for i := 0; i < nn-2; i++ {
					total *= 4
				}
				for code := 0; code < total; code++ {
					n++
					if !r.Mine(n) {
						continue
					}
					c := c16CCase{N: nn, W: wc}
					x := code
					for i := 0; i < nn-2; i++ {
						c.Other = append(c.Other, x%4)
						x /= 4
					}
					r.Crumb(c16Case{C: &c})
					c16CRun(r, c)
					c2 := c
					c2.MasterAlive = true
					r.Crumb(c16Case{C: &c2})
					c16CRun(r, c2)
				}
			}
		}
		r.Bound("part_c_quorum_cases", n)
	}()
	maxK := 3
	r.Bound("max_cascade_hosts", maxK)
	idx := 0
	for k := 1; k <= maxK; k++ {
		targets := []string{"", "m", "a"}
		for i := 1; i <= k; i++ {
			targets = append(targets, fmt.Sprintf("c%d", i))
		}
		nmaps := 1
		for i := 0; i < k; i++ {
			nmaps *= len(targets)
		}
		nh := 1
		for i := 0; i < k; i++ {
			nh *= gNKinds
		}
		for mc := 0; mc < nmaps; mc++ {
			sfs := make([]string, k)
			x := mc
			for i := 0; i < k; i++ {
				sfs[i] = targets[x%len(targets)]
				x /= len(targets)
			}
			for hc := 0; hc < nh; hc++ {
				hs := make([]int, k)
				y := hc
				for i := 0; i < k; i++ {
					hs[i] = y % gNKinds
					y /= gNKinds
				}
				for _, cur := range append([]string{""}, targets[1:]...) {
					if cur == "c1" {
						continue
					}
					idx++
					if !r.Mine(idx) {
						continue
					}
					c := c16ACase{k, sfs, hs, cur}
					if idx%9973 == 1 {
						r.Sample(c16Case{A: &c})
					}
					c16ARunWrap(r, app, c)
				}
			}
		}
	}
	for _, rel := range []string{"behind", "equal", "ahead", "diverged"} {
		for _, run := range []bool{true, false} {
			for _, h2 := range []int{gHealthy, gOffline, gLagging, gStopped, gDead} {
				for _, rc := range []string{"", "h1", "c2"} {
					for _, prog := range []bool{false, true} {
						idx++
						if !r.Mine(idx) {
							continue
						}
						c := c16BCase{Relation: rel, Running: run, H2: h2, Reconf: rc, Progress: prog}
						r.Crumb(c16Case{B: &c})
						if rel == "ahead" && run && h2 == gDead && rc == "" {
							r.Sample(c16Case{B: &c})
						}
						c16BRunWrap(r, c)
						if rc != "" {
							c.Late = true
							r.Crumb(c16Case{B: &c})
							c16BRunWrap(r, c)
						}
						if rc == "" && h2 == gHealthy && run && !prog && (rel == "behind" || rel == "equal") {
							// one failing read of the coordination service at every read of the first iteration
							c.Late = false
							pts := append([]sim.Point(nil), c16BPoints...)
							for i, p := range pts {
								if p.Kind != "zk" || p.Mut || p.Fails {
									continue
								}
								i := i
								cc := c
								cc.FailRead = &i
								r.Crumb(c16Case{B: &cc})
								c16BRunWrap(r, cc)
								r.Count("part_b_failing_reads")
							}
						}
					}
				}
			}
		}
	}
}

// wrappers so that replay files carry the {resolver|move} envelope
func c16ARunWrap(r *vt.Run, app *App, c c16ACase) {
	n := len(r.R.Violations)
	c16ARun(r, app, c)
	for _, v := range r.R.Violations[n:] {
		v.Case = c16Case{A: &c}
	}
}

func c16BRunWrap(r *vt.Run, c c16BCase) {
	n := len(r.R.Violations)
	c16BRun(r, c)
	for _, v := range r.R.Violations[n:] {
		v.Case = c16Case{B: &c}
	}
}
