//go:build verif

package app

// Harness shared by all checks that drive the real App: builds a world (fake MySQL servers,
// fake ZooKeeper tree), constructs real *App instances from per-host YAML through the real
// NewApp/connectDCS/newDBCluster, and runs handler chains / background-loop bodies as steps
// under the gate scheduler. Everything here runs inside a testing/synctest bubble.

import (
	"crypto/sha256"
	"encoding/hex"
	"encoding/json"
	"fmt"
	"os"
	"path/filepath"
	"reflect"
	"regexp"
	"slices"
	"sort"
	"strings"
	"testing"
	"testing/synctest"
	"time"
	"unsafe"

	nodestate "github.com/yandex/mysync/internal/app/node_state"
	"github.com/yandex/mysync/internal/dcs"
	"github.com/yandex/mysync/internal/verif/sim"
	vsqlx "github.com/yandex/mysync/internal/verif/sqlx"
	"github.com/yandex/mysync/internal/verif/vmap"
	"github.com/yandex/mysync/internal/verif/vsignal"
	"github.com/yandex/mysync/internal/verif/vt"
)

var verifChecks = map[string]vt.Check{}

func TestVerif(t *testing.T) {
	if os.Getenv("VERIF_OUT") != "" {
		// the CLI code prints to stdout; the worker's result goes to VERIF_OUT
		if f, err := os.OpenFile(os.DevNull, os.O_WRONLY, 0); err == nil {
			os.Stdout = f
		}
	}
	wrapped := map[string]vt.Check{}
	for k, c := range verifChecks {
		c := c
		wrapped[k] = func(r *vt.Run) {
			c(r)
			// engine conditions that must never pass silently
			if TickCuts > 0 {
				r.Add("step_mode_ticks_cut_at_unstable_state", TickCuts)
			}
			if StepBudgetAborts > 0 {
				r.Add("engine_step_budget_aborts", StepBudgetAborts)
				r.Note(fmt.Sprintf("%d executions hit the livelock step budget and were aborted (first: %s)", StepBudgetAborts, firstAbort))
			}
		}
	}
	vt.Main(t, wrapped)
}

const vns = "/test"

// Spec describes a cluster and its configuration.
type Spec struct {
	HA        []string          `json:"ha"`
	Cascade   map[string]string `json:"cascade,omitempty"`    // cascade host -> stream_from
	Conf      map[string]string `json:"conf,omitempty"`       // top-level YAML overrides
	ZKConf    map[string]string `json:"zkconf,omitempty"`     // zookeeper: overrides
	OptConf   map[string]string `json:"optconf,omitempty"`    // optimization_config: overrides
	CustomLag bool              `json:"custom_lag,omitempty"` // configure queries.replication_lag (lag independent of thread state)
}

func (s Spec) AllHosts() []string {
	r := append([]string(nil), s.HA...)
	var cs []string
	for c := range s.Cascade {
		cs = append(cs, c)
	}
	sort.Strings(cs)
	return append(r, cs...)
}

func (s Spec) conf(k, def string) string {
	if v, ok := s.Conf[k]; ok {
		return v
	}
	return def
}

type H struct {
	T          *testing.T
	W          *sim.World
	Spec       Spec
	Apps       map[string]*App
	inc        map[string]int
	ids        map[*App]string
	hc         map[*App]*hcState
	LogPath    string // replay: daemon log goes here at debug level
	dead       []*App
	clis       []*App
	daemons    map[string]*daemon
	applyEvery int // daemon mode: the replicas' SQL threads apply every applyEvery-th second (0: every 2nd)
	allDaemons []*daemon
}

type hcState struct {
	logFile   string
	maxLogPos int64
}

var scratchDir string

func scratch() string {
	if scratchDir == "" {
		scratchDir = os.Getenv("VERIF_SCRATCH")
		if scratchDir == "" {
			scratchDir = filepath.Join(os.TempDir(), fmt.Sprintf("verif-%d", os.Getpid()))
		}
		_ = os.MkdirAll(scratchDir, 0o755)
	}
	return scratchDir
}

// Bubble runs f inside a fresh synctest bubble with a fresh world.
func Bubble(t *testing.T, spec Spec, f func(h *H)) {
	synctest.Test(t, func(t *testing.T) {
		vsignal.ResetAll()
		vmap.Perm = 0
		h := &H{T: t, W: sim.NewWorld(), Spec: spec, Apps: map[string]*App{}, inc: map[string]int{}, ids: map[*App]string{}, hc: map[*App]*hcState{}}
		defer h.teardown()
		f(h)
		if h.W.Aborted != "" {
			if StepBudgetAborts == 0 {
				firstAbort = h.W.Aborted
			}
			StepBudgetAborts++
		}
	})
}

// MarkMonitor reports a recovery mark that a mysync process creates for a host which is, at that
// instant, still a member of the published active-node list (C04: "the list never contains hosts
// marked for recovery"; SetRecovery evicts first and marks second, so the two never coexist -
// whatever interrupts it).
func (h *H) MarkMonitor(report func(host, detail string)) {
	h.W.OnApply = append(h.W.OnApply, func(ap *sim.Applied) {
		if !ap.Effect || ap.Call.Kind != "zk" || ap.Call.Op != "create" || !strings.HasPrefix(ap.Call.Target, vns+"/recovery/") {
			return
		}
		host := ap.Call.Target[len(vns+"/recovery/"):]
		if list := h.ActiveNodes(); slices.Contains(list, host) {
			report(host, fmt.Sprintf("%s marked %s for recovery while it is a member of the published list %v", ap.Call.Proc, host, list))
		}
	})
}

// StepBudgetAborts counts executions aborted by the world's livelock budget.
var StepBudgetAborts int
var firstAbort string

func (h *H) teardown() {
	h.W.Chooser = nil
	h.W.OnIdle = nil
	if len(h.allDaemons) > 0 {
		h.stopDaemons()
	}
	for _, a := range h.Apps {
		h.closeApp(a)
	}
	for _, a := range h.dead {
		h.closeApp(a)
	}
	for _, a := range h.clis {
		a.loggerCloser.Close()
	}
	vsignal.Deliver("")
	vsqlx.CloseAll()
	synctest.Wait()
	// grant whatever is still parked so that no goroutine outlives the bubble
	for _, p := range h.W.Procs {
		p.Crashed = true
	}
	// detached goroutines (optimisation syncer, kill loop) may be inside the latency sleep of a
	// failed call: let virtual time pass until they have unwound
	for i := 0; i < 6; i++ {
		h.W.Settle()
		h.W.Advance(2 * time.Second)
	}
	h.W.Settle()
	vsignal.ResetAll()
	sim.Cur = nil
}

func (h *H) closeApp(a *App) {
	if a.dcs != nil {
		a.dcs.Close()
	}
	if a.cluster != nil {
		a.cluster.Close()
	}
	a.loggerCloser.Close()
}

func (h *H) yaml(id, host string) string {
	s := h.Spec
	var b strings.Builder
	top := map[string]string{
		"hostname":                      host,
		"loglevel":                      "Info",
		"log_poll_interval":             "0s",
		"lockfile":                      filepath.Join(scratch(), id+".lock"),
		"info_file":                     "/vfs/" + host + "/info",
		"emergefile":                    "/vfs/" + host + "/emerge",
		"resetupfile":                   "/vfs/" + host + "/resetup",
		"maintenancefile":               "/vfs/" + host + "/maintenance",
		"test_disk_usage_file":          "/vfs/" + host + "/usedspace",
		"test_filesystem_readonly_file": "/vfs/" + host + "/readonly",
		"semi_sync":                     "true",
		"failover":                      "true",
		"failover_delay":                "0s",
		"failover_cooldown":             "3600s",
		"inactivation_delay":            "30s",
		"db_lost_check_timeout":         "1s",
		"tick_interval":                 "5s",
		"healthcheck_interval":          "5s",
		"recoverycheck_interval":        "5s",
		"info_file_handler_interval":    "30s",
		"critical_disk_usage":           "95",
		"not_critical_disk_usage":       "90",
	}
	for k, v := range s.Conf {
		top[k] = v
	}
	keys := make([]string, 0, len(top))
	for k := range top {
		keys = append(keys, k)
	}
	sort.Strings(keys)
	for _, k := range keys {
		fmt.Fprintf(&b, "%s: %s\n", k, top[k])
	}
	b.WriteString("exclude_users: ['repl', 'admin', 'monitor']\n")
	if s.CustomLag {
		b.WriteString("queries:\n  replication_lag: 'SELECT verif_lag AS Seconds_Behind_Master'\n")
	}
	fmt.Fprintf(&b, "mysql:\n  user: %s\n  password: adminpw\n  replication_user: repl\n  replication_password: replpw\n  pid_file: /vfs/%s/mysqld.pid\n  error_log: /vfs/%s/error.log\n", id, host, host)
	zk := map[string]string{"hostname": host, "namespace": vns, "session_timeout": "3s", "lock_held_ttl": "0s", "backoff_rand_factor": "0",
		"backoff_max_retries": "3", "backoff_interval": "100ms"}
	for k, v := range s.ZKConf {
		zk[k] = v
	}
	keys = keys[:0]
	for k := range zk {
		keys = append(keys, k)
	}
	sort.Strings(keys)
	b.WriteString("zookeeper:\n")
	for _, k := range keys {
		fmt.Fprintf(&b, "  %s: %s\n", k, zk[k])
	}
	fmt.Fprintf(&b, "  hosts: ['%s']\n", id)
	if len(s.OptConf) > 0 {
		b.WriteString("optimization_config:\n")
		keys = keys[:0]
		for k := range s.OptConf {
			keys = append(keys, k)
		}
		sort.Strings(keys)
		for _, k := range keys {
			fmt.Fprintf(&b, "  %s: %s\n", k, s.OptConf[k])
		}
	}
	return b.String()
}

func (h *H) configFile(id, host string) string {
	y := h.yaml(id, host)
	sum := sha256.Sum256([]byte(y))
	p := filepath.Join(scratch(), "cfg-"+hex.EncodeToString(sum[:8])+".yaml")
	if _, err := os.Stat(p); err != nil {
		if err := os.WriteFile(p, []byte(y), 0o644); err != nil {
			h.T.Fatalf("write config: %v", err)
		}
	}
	return p
}

var devnull *os.File

// Start creates a new mysync process (incarnation) on host: real NewApp + connectDCS + newDBCluster.
func (h *H) Start(host string) *App {
	h.inc[host]++
	id := fmt.Sprintf("%s.%d", host, h.inc[host])
	return h.startAs(id, host)
}

func (h *H) startAs(id, host string) *App {
	h.W.AddProc(id, host)
	cfg := h.configFile(id, host)
	// App.CloseLogger closes the handle the console writer was given; never let that be fd 2.
	saved := os.Stderr
	level := "fatal"
	var sink *os.File
	var err error
	if h.LogPath != "" {
		sink, err = os.OpenFile(h.LogPath, os.O_WRONLY|os.O_CREATE|os.O_APPEND, 0o644)
		level = "debug"
	} else {
		sink, err = os.OpenFile(os.DevNull, os.O_WRONLY, 0)
	}
	if err != nil {
		h.T.Fatalf("open log sink: %v", err)
	}
	os.Stderr = sink
	a, err := NewApp(cfg, level, true)
	os.Stderr = saved
	if err != nil {
		h.T.Fatalf("NewApp: %v", err)
	}
	vsignal.SetCurrent(id)
	if err := a.connectDCS(); err != nil {
		h.T.Fatalf("connectDCS: %v", err)
	}
	if err := a.newDBCluster(); err != nil {
		h.T.Fatalf("newDBCluster: %v", err)
	}
	if old := h.Apps[host]; old != nil && strings.HasPrefix(id, host+".") {
		h.dead = append(h.dead, old)
	}
	if strings.HasPrefix(id, host+".") {
		h.Apps[host] = a
	} else {
		h.dead = append(h.dead, a)
	}
	h.ids[a] = id
	h.hc[a] = &hcState{}
	synctest.Wait() // let the event loop consume the session events
	return a
}

func (h *H) ID(a *App) string { return h.ids[a] }

// Tick runs the handler chain of a exactly as the body of Run()'s ticker case does.
func (h *H) Tick(a *App) {
	h.W.Step(h.ids[a], func() { tickBody(a) })
}

func tickBody(a *App) {
	handlers := map[appState](func() appState){
		stateFirstRun:    a.stateFirstRun,
		stateManager:     a.stateManager,
		stateCandidate:   a.stateCandidate,
		stateLost:        a.stateLost,
		stateMaintenance: a.stateMaintenance,
	}
	// Run() repeats handlers until the state is stable. One reachable situation never stabilises:
	// a candidate in full maintenance whose key says should_leave while the manager has not left
	// yet flips stateMaintenance <-> stateCandidate without sleeping (DESIGN.md section 10,
	// observation O1). Every round of that loop is identical, so the step-mode tick stops after
	// tickMaxHandlers handler calls; the count of cut ticks is reported (TickCuts).
	for n := 0; ; n++ {
		stateHandler := handlers[a.state]
		if stateHandler == nil {
			panic(fmt.Sprintf("unknown state: %s", a.state))
		}
		nextState := stateHandler()
		if nextState == a.state {
			break
		}
		a.state = nextState
		if n >= tickMaxHandlers {
			TickCuts++
			break
		}
	}
}

const tickMaxHandlers = 12

// TickCuts counts step-mode ticks that were cut because the state never stabilised.
var TickCuts int

// Health runs one body of healthChecker.
func (h *H) Health(a *App) {
	st := h.hc[a]
	h.W.Step(h.ids[a], func() {
		hc := a.getLocalNodeState()
		st.logFile, st.maxLogPos = hc.UpdateBinlogStatus(st.logFile, st.maxLogPos)
		_ = a.SetHealthState(a.config.Hostname, hc)
	})
}

// Recovery runs one body of recoveryChecker.
func (h *H) Recovery(a *App) {
	h.W.Step(h.ids[a], func() {
		a.checkRecovery()
		a.checkCrashRecovery()
		a.SetResetupStatus()
	})
}

// LagCheck runs one body of replicationLagChecker.
func (h *H) LagCheck(a *App) {
	h.W.Step(h.ids[a], func() {
		if a.doesResetupFileExist() {
			return
		}
		if a.lagResetupper.CheckNeedResetup(a.cluster) {
			a.writeResetupFile()
		}
	})
}

// ---------------------------------------------------------------------------------------------
// world construction

func jsonStr(v any) string {
	b, _ := json.Marshal(v)
	return string(b)
}

// BuildConverged creates servers and tree of a healthy cluster: HA[0] is the writable master
// with semi-sync as the configuration implies, the others replicate from it, all are in the
// published list. No health records yet (hosts publish them through their own health checks).
func (h *H) BuildConverged() {
	s := h.Spec
	w := h.W
	master := s.HA[0]
	semi := s.conf("semi_sync", "true") == "true"
	wcfg := 1
	fmt.Sscanf(s.conf("rpl_semi_sync_master_wait_for_slave_count", "1"), "%d", &wcfg)
	base := sim.Range(sim.UUIDFor(master), 3)
	for _, host := range s.AllHosts() {
		srv := w.AddServer(host)
		srv.Executed = base.Clone()
		w.VFS["/vfs/"+host+"/usedspace"] = []byte("50")
		w.VFS["/vfs/"+host+"/readonly"] = []byte("false")
	}
	need := min(len(s.HA)/2, wcfg)
	for i, host := range s.HA {
		srv := w.Servers[host]
		if i == 0 {
			if semi && need > 0 {
				srv.SSMaster, srv.WaitCount = true, need
			}
			continue
		}
		srv.SSSlave = semi
		srv.MakeReplica(master)
	}
	for c, from := range s.Cascade {
		src := from
		if src == "" {
			src = master
		}
		w.Servers[c].MakeReplica(src)
	}
	z := w.ZK
	z.Put(vns, "")
	for _, host := range s.HA {
		z.Put(vns+"/ha_nodes/"+host, `{"priority":0}`)
	}
	for c, from := range s.Cascade {
		z.Put(vns+"/cascade_nodes/"+c, jsonStr(map[string]string{"stream_from": from}))
	}
	z.Put(vns+"/master", jsonStr(master))
	act := append([]string(nil), s.HA...)
	sort.Strings(act)
	z.Put(vns+"/active_nodes", jsonStr(act))
}

// InjectHealth writes minimal health records (reachable, role from the fake server) for every
// host, as a stand-in for the hosts' own health checks where only liveness matters.
func (h *H) InjectHealth() {
	for _, host := range h.Spec.AllHosts() {
		s := h.W.Servers[host]
		st := &nodestate.NodeState{CheckBy: host, PingOk: s.Up, IsMaster: !s.HasSource, IsReadOnly: s.ReadOnly, IsSuperReadOnly: s.SuperRO, IsOffline: s.Offline}
		h.W.ZK.Put(vns+"/health/"+host, jsonStr(st))
	}
}

// StartAll starts one mysync per host and publishes every host's health record.
func (h *H) StartAll() {
	for _, host := range h.Spec.AllHosts() {
		h.Start(host)
	}
}

func (h *H) HealthAll() {
	for _, host := range h.Spec.AllHosts() {
		if a := h.Apps[host]; a != nil {
			if p := h.W.Procs[h.ids[a]]; p != nil && !p.Crashed {
				h.Health(a)
			}
		}
	}
}

// ---------------------------------------------------------------------------------------------
// observation helpers

func (h *H) ZGet(key string, v any) bool {
	d, ok := h.W.ZK.Get(vns + "/" + key)
	if !ok {
		return false
	}
	return json.Unmarshal([]byte(d), v) == nil
}

func (h *H) ActiveNodes() []string {
	var l []string
	h.ZGet("active_nodes", &l)
	return l
}

func (h *H) MasterKey() string {
	var m string
	h.ZGet("master", &m)
	return m
}

func (h *H) Switch() *Switchover {
	var s Switchover
	if !h.ZGet("switch", &s) {
		return nil
	}
	return &s
}

func (h *H) HealthRecord(host string) *nodestate.NodeState {
	var s nodestate.NodeState
	if !h.ZGet("health/"+host, &s) {
		return nil
	}
	return &s
}

// treeFilter drops log-only fields and volatile timestamps from the canonical tree dump.
func treeFilter(path string, data []byte) (string, bool) {
	if strings.HasPrefix(path, vns+"/health/") {
		var s nodestate.NodeState
		if json.Unmarshal(data, &s) == nil {
			s.CheckAt = time.Time{}
			s.CheckBy = ""
			s.Error = ""
			return jsonStr(s), true
		}
	}
	if strings.HasPrefix(path, vns+"/timing") {
		return "", false
	}
	// absolute virtual timestamps -> age in seconds, so that histories differing only in when
	// things happened merge when the ages agree
	d := vTimeRe.ReplaceAllStringFunc(string(data), func(m string) string {
		t, err := time.Parse(time.RFC3339Nano, strings.Trim(m, `"`))
		if err != nil || t.Year() < 1999 {
			return m
		}
		return fmt.Sprintf(`"T-%d"`, int(time.Since(t).Seconds()))
	})
	return d, true
}

var vTimeRe = regexp.MustCompile(`"\d{4}-\d\d-\d\dT\d\d:\d\d:\d\d(\.\d+)?Z"`)

// NewCLI creates a mysync command-line process on host (NewApp only; the Cli* method connects).
func (h *H) NewCLI(host string) (*App, string) {
	h.inc["cli"]++
	id := fmt.Sprintf("cli%d.%s", h.inc["cli"], host)
	h.W.AddProc(id, host)
	cfg := h.configFile(id, host)
	saved := os.Stderr
	sink, err := os.OpenFile(os.DevNull, os.O_WRONLY, 0)
	if err != nil {
		h.T.Fatalf("open log sink: %v", err)
	}
	os.Stderr = sink
	a, err := NewApp(cfg, "fatal", true)
	os.Stderr = saved
	if err != nil {
		h.T.Fatalf("NewApp: %v", err)
	}
	h.ids[a] = id
	h.clis = append(h.clis, a)
	return a, id
}

// RunCLI runs a Cli* method of a fresh command-line process under the scheduler.
func (h *H) RunCLI(host string, f func(a *App) int) int {
	a, id := h.NewCLI(host)
	rc := -1
	h.W.Step(id, func() { rc = f(a) })
	return rc
}

// Replace kills the mysync of host and starts a fresh one after its session expired.
func (h *H) Replace(host string) *App {
	if a := h.Apps[host]; a != nil {
		id := h.ids[a]
		h.W.Crash(id)
		for _, zc := range h.W.Procs[id].ZK {
			h.W.ZK.Expire(zc)
		}
	}
	return h.Start(host)
}

// AppState renders the internal state of an App that influences its future behaviour.
func (h *H) AppState(a *App) string {
	var b strings.Builder
	fmt.Fprintf(&b, "state=%s", a.state)
	var ts []string
	// through the type's own accessors: the harness must keep building when the representation changes
	for _, tt := range []TimingType{NodeFailedAt, StreamFromFailedAt, MasterStuckAt, ZKHALost} {
		for _, host := range append(h.Spec.AllHosts(), "gone", "ghost") {
			if v := a.t.Get(tt, host); !v.IsZero() {
				ts = append(ts, fmt.Sprintf("%s/%s=%s", tt, host, time.Since(v).Truncate(time.Second)))
			}
		}
	}
	sort.Strings(ts)
	fmt.Fprintf(&b, " timings=%v", ts)
	var sp []string
	for k, v := range a.slaveReadPositions {
		sp = append(sp, k+"="+v)
	}
	sort.Strings(sp)
	fmt.Fprintf(&b, " readpos=%v", sp)
	var rr []string
	for k, v := range a.replRepairState {
		rr = append(rr, fmt.Sprintf("%s:%v:%s", k, v.History, time.Since(v.LastAttempt).Truncate(time.Second)))
	}
	sort.Strings(rr)
	fmt.Fprintf(&b, " repair=%v", rr)
	if !a.lostQuorumTime.IsZero() {
		fmt.Fprintf(&b, " lostQuorum=%s", time.Since(a.lostQuorumTime).Truncate(time.Second))
	}
	if a.dcs != nil {
		fmt.Fprintf(&b, " dcs[%s]", dcs.VerifState(a.dcs))
	}
	// the membership the process has cached (decisions taken without the coordination service use it)
	if a.cluster != nil {
		hh, cc := a.cluster.HANodeHosts(), a.cluster.CascadeNodeHosts()
		sort.Strings(hh)
		sort.Strings(cc)
		fmt.Fprintf(&b, " members=%v/%v", hh, cc)
	}
	// every field of App this function does not know by name (a cache or counter a change may have
	// added decides futures too: left out, the searches would merge states that differ only in it)
	known := map[string]bool{"state": true, "logger": true, "loggerCloser": true, "sysLog": true, "config": true, "dcs": true, "appDCS": true,
		"cluster": true, "filelock": true, "t": true, "slaveReadPositions": true, "daemonState": true, "daemonMutex": true, "replRepairState": true,
		"externalReplication": true, "switchHelper": true, "lostQuorumTime": true, "optSyncer": true, "optController": true, "offlineModeFilter": true,
		"lagResetupper": true}
	rv := reflect.ValueOf(a).Elem()
	rt := rv.Type()
	for i := 0; i < rt.NumField(); i++ {
		if name := rt.Field(i).Name; !known[name] {
			fmt.Fprintf(&b, " %s=%s", name, dcs.VerifRenderField(reflect.NewAt(rt.Field(i).Type, unsafe.Pointer(rv.Field(i).UnsafeAddr()))))
		}
	}
	return b.String()
}

// Canon is the canonical state of world + live instances.
func (h *H) Canon() string {
	var b strings.Builder
	b.WriteString(h.W.Dump(treeFilter))
	var hosts []string
	for host := range h.Apps {
		hosts = append(hosts, host)
	}
	sort.Strings(hosts)
	for _, host := range hosts {
		a := h.Apps[host]
		p := h.W.Procs[h.ids[a]]
		if p != nil && p.Crashed {
			fmt.Fprintf(&b, "app %s: dead\n", host)
			continue
		}
		fmt.Fprintf(&b, "app %s: %s\n", host, h.AppState(a))
	}
	return b.String()
}

// Writable lists hosts whose server is up and not read-only.
func (h *H) Writable() []string {
	var r []string
	for host, s := range h.W.Servers {
		if s.Up && !s.ReadOnly {
			r = append(r, host)
		}
	}
	sort.Strings(r)
	return r
}

// PanicWhere extracts the repository frames of the recorded panic stacks.
func (h *H) PanicWhere() string {
	var out []string
	for _, st := range h.W.PanicStacks {
		for _, l := range strings.Split(st, "\n") {
			l = strings.TrimSpace(l)
			if strings.Contains(l, "/internal/") && strings.Contains(l, ".go:") && !strings.Contains(l, "/internal/verif/") && !strings.Contains(l, "zz_verif") {
				if i := strings.Index(l, " +0x"); i > 0 {
					l = l[:i]
				}
				out = append(out, l[strings.Index(l, "/internal/")+1:])
				if len(out) >= 4 {
					return strings.Join(out, " <- ")
				}
			}
		}
	}
	return strings.Join(out, " <- ")
}
