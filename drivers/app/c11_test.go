//go:build verif

package app

// C11 Recovery protocol keeps diverged ex-masters out until proven clean. BFS over event
// histories on a 3-node cluster: switchovers and failovers away from h1 (and back), h1's MySQL
// dying and returning, transactions that make h1 behind / ahead / diverged, replication errors
// on h1, manager iterations (manager on h3) and h1's own real recovery check, time advances.

import (
	"fmt"
	"slices"
	"strings"
	"time"

	"github.com/yandex/mysync/internal/verif/sim"
	"github.com/yandex/mysync/internal/verif/vt"
)

func init() { verifChecks["C11"] = checkC11 }

type c11Case struct {
	Hist []string `json:"history"`
	// FailAt >= 0: the call number FailAt of the LAST event of the history fails (b = 1)
	FailAt *int `json:"failing_call_of_last_event,omitempty"`
	// Flavour 1: a ZooKeeper call fails with an error the client does not retry (no server reachable);
	// 0: the connection drops and comes back at once (retried by the client)
	Flavour int `json:"failure_flavour,omitempty"`
}

var c11LastEventPoints []sim.Point

var c11Alphabet = []string{"mgrTick", "h1Recovery", "fileTo2", "fileTo1", "h1Dies", "h1Starts", "h1Unreplicated", "writeMaster", "h1SQLError", "h1IOError", "h1Writable", "adv5", "adv61"}

func c11Run(r *vt.Run, c c11Case) (canon string) {
	r.Eval()
	spec := Spec{HA: []string{"h1", "h2", "h3"}, Conf: map[string]string{"failover": "true", "failover_cooldown": "1s", "slave_catch_up_timeout": "6s",
		"wait_start_replication_timeout": "2s", "replication_convergence_timeout_switchover": "5s", "switchover_max_attempts": "2"}}
	violate := func(clause, detail string) {
		r.Violate("C11/"+clause, detail+fmt.Sprintf("; history %v", c.Hist), c)
	}
	Bubble(r.T, spec, func(h *H) {
		h.BuildConverged()
		w := h.W
		w.LogStmts = r.Replay != nil
		w.IdleEvery = time.Second
		dyn := func() {
			for _, x := range spec.HA {
				w.Replicate(x)
				w.Apply(x)
			}
		}
		w.OnIdle = dyn
		mgr := h.Start("h3")
		a1 := h.Start("h1")
		h.InjectHealth()
		h.Tick(mgr)
		h1 := w.Servers["h1"]
		marked := func(x string) bool { return w.ZK.Exists(vns + "/recovery/" + x) }
		// monitors
		w.OnApply = append(w.OnApply, func(ap *sim.Applied) {
			if !ap.Effect {
				return
			}
			if ap.Call.Kind == "sql" && ap.Call.Op == "SET_WRITABLE" {
				p := ap.Call.Target
				if marked(p) && p != h.MasterKey() {
					violate("2-marked-host-never-promoted", fmt.Sprintf("%s made writable while marked for recovery (recorded master %s)", p, h.MasterKey()))
				}
			}
			if ap.Call.Kind == "zk" && ap.Call.Op == "delete" && strings.HasPrefix(ap.Call.Target, vns+"/recovery/") {
				x := ap.Call.Target[len(vns+"/recovery/"):]
				r.Count("mark_cleared")
				if w.Procs[ap.Call.Proc] == nil || w.Procs[ap.Call.Proc].Host != x {
					violate("3-mark-cleared-only-by-own-mysync", fmt.Sprintf("recovery mark of %s deleted by %s", x, ap.Call.Proc))
				}
				s, ms := w.Servers[x], w.Servers[h.MasterKey()]
				switch {
				case s == nil || ms == nil:
				case !s.HasSource || !s.ReadOnly:
					violate("3-mark-cleared-only-when-read-only-replica", fmt.Sprintf("recovery mark of %s cleared while it is not a read-only replica (replica=%v read_only=%v)", x, s.HasSource, s.ReadOnly))
				case !s.Executed.SubsetOf(ms.Executed):
					violate("3-mark-cleared-only-when-contained-in-master", fmt.Sprintf("recovery mark of %s cleared although it holds %s which master %s lacks", x, strings.ReplaceAll(s.Executed.Minus(ms.Executed).String(), "\n", ""), ms.Host))
				case s.IOErrno != 0 && s.IOErrno != 2003 || s.SQLErrno != 0:
					violate("4-replication-error-keeps-mark", fmt.Sprintf("recovery mark of %s cleared although its replication is in error (io %d sql %d)", x, s.IOErrno, s.SQLErrno))
				}
			}
		})
		failBase := 0
		for step, ev := range c.Hist {
			np := len(w.Panics)
			if step == len(c.Hist)-1 {
				lastBase := len(w.Trace)
				failBase = lastBase
				defer func() { c11LastEventPoints = append([]sim.Point(nil), w.Trace[lastBase:]...) }()
				if c.FailAt != nil {
					w.Plan[lastBase+*c.FailAt] = sim.Deviation{Kind: sim.DevErr, Arg: c.Flavour}
				}
			}
			switch ev {
			case "mgrTick":
				h.InjectHealth()
				masterBefore := h.MasterKey()
				lastBefore, _ := w.ZK.Get(vns + "/last_switch")
				// trigger B candidates: reachable HA hosts claiming to be master beside the recorded one
				var claim []string
				for _, x := range spec.HA {
					s := w.Servers[x]
					if x != masterBefore && s.Up && !s.HasSource {
						claim = append(claim, x)
					}
				}
				pendingBefore := w.ZK.Exists(vns + "/switch")
				h.Tick(mgr)
				lastAfter, _ := w.ZK.Get(vns + "/last_switch")
				ms := w.Servers[h.MasterKey()]
				if lastAfter != lastBefore && h.MasterKey() != masterBefore && ms != nil {
					// a switch away from masterBefore completed in this iteration (trigger A)
					old := w.Servers[masterBefore]
					clean := old.Up && old.HasSource && old.SQLErrno == 0 && (old.IOErrno == 0 || old.IOErrno == 2003) && old.Executed.SubsetOf(ms.Executed)
					r.Count("switches_completed")
					if !clean {
						r.Count("trigger_a")
						if !marked(masterBefore) {
							violate("1-marked-when-not-confirmed-clean", fmt.Sprintf("switch %s -> %s completed, old master not a clean replica (up=%v replica=%v sqlerr=%d ahead=%v) but not marked", masterBefore, ms.Host, old.Up, old.HasSource, old.SQLErrno, !old.Executed.SubsetOf(ms.Executed)))
						}
					}
				}
				if !pendingBefore && !w.ZK.Exists(vns+"/switch") && ms != nil && ms.Up && h.MasterKey() == masterBefore && mgr.state == stateManager {
					for _, x := range claim {
						if s := w.Servers[x]; s.Up {
							r.Count("trigger_b")
							if c.FailAt != nil && step == len(c.Hist)-1 {
								// with one failing call in this iteration the manager may not have FOUND the host
								// (a failed read of its state): it is found next time. It was found if mysync
								// re-pointed it; then it must be marked - afterwards it does not look like a master
								// any more and nothing would mark it
								if s.HasSource && !marked(x) {
									what := "?"
									if i := failBase + *c.FailAt; i < len(w.Trace) {
										what = w.Trace[i].Kind + ":" + w.Trace[i].Op
									}
									violate("1-marked-when-claiming-master/after-one-failed-call@"+what, fmt.Sprintf("%s claimed to be master beside the recorded master %s, was re-pointed by the manager in an iteration with one failing call (%s) and is not marked", x, masterBefore, what))
								}
								continue
							}
							if !marked(x) {
								violate("1-marked-when-claiming-master", fmt.Sprintf("%s claimed to be master beside the recorded master %s during a completed manager iteration but is not marked", x, masterBefore))
							}
						}
					}
				}
			case "h1Recovery":
				if w.Procs[h.ID(a1)].Crashed {
					break
				}
				wasMarked := marked("h1")
				hadResetup := w.VFSHas("/vfs/h1/resetup")
				ms := w.Servers[h.MasterKey()]
				bad := h1.Up && h1.HasSource && ms != nil && ms.Up && (!h1.Executed.SubsetOf(ms.Executed) || h1.SQLErrno != 0 || (h1.IOErrno != 0 && h1.IOErrno != 2003))
				h.Recovery(a1)
				if wasMarked && bad && !hadResetup && h.MasterKey() != "h1" {
					r.Count("dirty_recovery_checks")
					if !w.VFSHas("/vfs/h1/resetup") {
						violate("4-dirty-host-gets-resetup-file", "h1 is marked, is a replica holding transactions the master lacks or with replication in error, but its recovery check did not write the resetup file")
					}
					if !marked("h1") {
						violate("4-dirty-host-keeps-mark", "h1 is marked and dirty but the mark disappeared during its recovery check")
					}
				}
			case "fileTo2", "fileTo1":
				w.Advance(time.Second)
				to := "h2"
				if ev == "fileTo1" {
					to = "h1"
				}
				if !w.ZK.Exists(vns+"/switch") && h.MasterKey() != to {
					w.ZK.Put(vns+"/switch", jsonStr(Switchover{To: to, Cause: CauseWorker, InitiatedBy: "worker", InitiatedAt: time.Now(), MasterTransition: SwitchoverTransition}))
				}
			case "h1Dies":
				h1.Crash(w)
			case "h1Starts":
				h1.Start(w)
			case "h1Unreplicated":
				// a transaction committed on h1 that reached nobody else
				if h1.Up {
					h1.Executed.Add(h1.UUID, h1.Executed.MaxGno(h1.UUID)+1)
				}
			case "writeMaster":
				mk := h.MasterKey()
				if s := w.Servers[mk]; s != nil && s.Accepts(w) {
					w.Write(mk)
				}
				dyn()
			case "h1SQLError":
				if h1.Up && h1.HasSource {
					h1.SQLRunning, h1.SQLErrno, h1.SQLError = false, 1062, "Duplicate entry"
				}
			case "h1IOError":
				if h1.Up && h1.HasSource {
					h1.IORunning, h1.IOErrno, h1.IOError = false, 13114, "Got fatal error 1236 from source when reading data from binary log"
				}
			case "h1LosesReplConfig":
				// its replication configuration is gone (data directory restored from a backup, an operator's
				// RESET REPLICA ALL): from now on it looks like a master
				if h.MasterKey() != "h1" {
					h1.HasSource, h1.Source, h1.IORunning, h1.SQLRunning = false, "", false, false
				}
			case "h1Writable":
				if h1.Up {
					h1.ReadOnly, h1.SuperRO = false, false // an operator (or a stuck client) left it writable
				}
			case "adv5":
				w.Advance(5 * time.Second)
				dyn()
			case "adv61":
				w.Advance(61 * time.Second)
				dyn()
			}
			if len(w.Panics) > np || len(w.Unknown) > 0 {
				violate("0-engine", fmt.Sprintf("panics=%v unknown=%v at step %d (%s)", w.Panics, w.Unknown, step, ev))
				return
			}
			// (I1) marked => not in the published list unless it is the recorded master
			list := h.ActiveNodes()
			for _, x := range spec.HA {
				if marked(x) && x != h.MasterKey() && slices.Contains(list, x) && !w.ZK.Exists(vns+"/switch") {
					violate("2-marked-host-not-in-active-list", fmt.Sprintf("%s is marked for recovery and in the published list %v (recorded master %s) after step %d (%s)", x, list, h.MasterKey(), step, ev))
				}
			}
		}
		canon = h.Canon()
		r.Outcome(fmt.Sprintf("master=%s marked=%v resetup=%v", h.MasterKey(), marked("h1"), w.VFSHas("/vfs/h1/resetup")))
		if r.Replay != nil {
			for _, l := range w.StmtLog {
				if !strings.Contains(l, "(no effect)") {
					r.Logf("%s", l)
				}
			}
		}
	})
	return canon
}

func checkC11(r *vt.Run) {
	var rc c11Case
	if r.ReplayInto(&rc) {
		var sc c11StateCase
		if r.ReplayInto(&sc) && sc.State {
			c11StateRun(r, sc)
		} else {
			c11Run(r, rc)
		}
		return
	}
	defer checkC11States(r)
	depth := 4
	if r.Thorough() {
		depth = 6
	}
	r.Bound("depth", depth)
	enabled := func(hist []string, ev string) bool {
		cnt := 0
		for _, x := range hist {
			if x == ev {
				cnt++
			}
		}
		switch ev {
		case "h1Dies", "h1Starts", "h1SQLError", "h1IOError", "h1Writable", "adv61", "fileTo1":
			return cnt < 1
		case "h1Unreplicated", "writeMaster", "fileTo2":
			return cnt < 2
		}
		return true
	}
	runner := func(hist []string) string {
		c := c11Case{Hist: hist}
		r.Crumb(c)
		if len(hist) == 4 && hist[0] == "h1Unreplicated" && hist[1] == "h1Dies" {
			r.Sample(c)
		}
		return c11Run(r, c)
	}
	vBFS(r, "full|", c11Alphabet, depth, enabled, runner)
	focus := []string{"mgrTick", "h1Recovery", "fileTo2", "h1Dies", "h1Starts", "h1Unreplicated", "writeMaster", "adv5"}
	vBFS(r, "focus|", focus, depth+2, enabled, runner)
	r.Bound("focus_alphabet_depth", depth+2)
	// start from a non-initial state too: h1 failed over, returned and is a marked replica of h2
	prefix := []string{"h1Dies", "mgrTick", "mgrTick", "h1Starts", "mgrTick", "mgrTick"}
	after := []string{"mgrTick", "h1Recovery", "h1Unreplicated", "writeMaster", "h1SQLError", "h1IOError", "h1Writable", "fileTo1", "adv5", "adv61"}
	en2 := func(hist []string, ev string) bool {
		n := 0
		for _, x := range hist {
			if x == ev {
				n++
			}
		}
		return n < 2
	}
	vBFS(r, "marked|", after, depth, en2, func(hist []string) string {
		return runner(append(append([]string(nil), prefix...), hist...))
	})
	// and from a state in which h1, an ordinary replica of the new master h2, has been down long enough
	// to be dropped from the published list
	prefix3 := []string{"fileTo2", "mgrTick", "h1Recovery", "mgrTick", "h1Dies", "mgrTick", "adv61", "mgrTick"}
	after3 := []string{"mgrTick", "h1Recovery", "h1Starts", "h1LosesReplConfig", "h1Unreplicated", "writeMaster", "adv5"}
	vBFS(r, "dropped|", after3, depth, en2, func(hist []string) string {
		return runner(append(append([]string(nil), prefix3...), hist...))
	})
	r.Bound("third_initial_state", "h1 switched away from, clean replica of h2, then down and dropped from the list (prefix "+strings.Join(prefix3, ",")+")")
	// b = 1: one failing call at every call boundary of the last event of a few histories in which a
	// marked host looks healthy to the manager
	fidx := 0
	for _, hist := range [][]string{
		append(append([]string(nil), prefix...), "mgrTick"),
		append(append([]string(nil), prefix...), "adv5", "mgrTick"),
		append(append([]string(nil), prefix...), "h1Recovery"),
		{"h1Dies", "mgrTick", "mgrTick"},
		// the iteration that finds the former master claiming to be master beside the recorded one
		// (re-pointing and marking it)
		// the iteration that finds the cleanly switched-away former master claiming to be master beside
		// the recorded one (its replication configuration was reset by hand): re-pointing and marking
		{"fileTo2", "mgrTick", "h1LosesReplConfig", "mgrTick"},
	} {
		c11LastEventPoints = nil
		c11Run(r, c11Case{Hist: hist})
		r.R.Evaluations--
		pts := c11LastEventPoints
		r.Bound(fmt.Sprintf("one_failing_call_at_each_of_the_%d_calls_of_the_last_event_of", len(pts)), strings.Join(hist, ","))
		for at, p := range pts {
			for fl := 0; fl < 2; fl++ {
				if fl == 1 && p.Kind != "zk" {
					continue
				}
				fidx++
				if !r.Mine(fidx) {
					continue
				}
				at := at
				cc := c11Case{Hist: hist, FailAt: &at, Flavour: fl}
				r.Crumb(cc)
				c11Run(r, cc)
			}
		}
	}
	r.Bound("second_initial_state", "h1 failed over, returned, marked replica of h2 (prefix "+strings.Join(prefix, ",")+")")
}
