//go:build verif

package app

// C19 Replication optimisation never leaves untracked relaxed durability. BFS over event
// histories: manager iterations (the real Syncer runs at their end and during the pre-switchover
// phase on virtual time), the real CLI enable / disable / disable-all, lag changes around both
// marks, status written by an external tool, a replica dying, unknown hosts in the registry,
// switch requests with the optimised replica as candidate; ZooKeeper child order as an input.

import (
	"fmt"
	"sort"
	"strings"
	"time"

	"github.com/yandex/mysync/internal/verif/sim"
	"github.com/yandex/mysync/internal/verif/vt"
)

func init() { verifChecks["C19"] = checkC19 }

type c19Case struct {
	ChildOrder int      `json:"child_order"`
	Hist       []string `json:"history"`
}

var c19Alphabet = []string{"mgrTick", "enable2", "enable3", "disable2", "disableAll", "lag2:unknown", "lag2:low", "lag2:mid", "lag2:high",
	"lag3:high", "lag3:low", "status2:enabled", "ghost", "h2Dies", "h2Starts", "fileTo2", "fileFrom1", "adv5", "h2SettingsFail", "h2SettingsOK", "h2SecondSettingFails", "h2Unreachable", "h2Reachable"}

// events of the stale-snapshot searches: the hosts' health loops and the manager loop are separate
// processes, so the records the Syncer classifies may have been READ before the manager's previous
// iteration changed the server and PUBLISHED after it
var c19StaleAlphabet = []string{"mgrTickOnly", "health", "healthRead", "healthPublish", "lag2:low", "lag2:high", "lag3:high", "enable3", "mgrTick"}

func c19Run(r *vt.Run, c c19Case) (canon string) {
	r.Eval()
	spec := Spec{HA: []string{"h1", "h2", "h3"}, CustomLag: true, Conf: map[string]string{"failover": "false", "slave_catch_up_timeout": "6s",
		"wait_start_replication_timeout": "2s", "replication_convergence_timeout_switchover": "10s", "switchover_max_attempts": "2"},
		OptConf: map[string]string{"high_replication_mark": "120s", "low_replication_mark": "60s"}}
	violate := func(clause, detail string) {
		r.Violate("C19/"+clause, detail+fmt.Sprintf("; child_order=%d history %v", c.ChildOrder, c.Hist), c)
	}
	Bubble(r.T, spec, func(h *H) {
		h.BuildConverged()
		w := h.W
		w.LogStmts = r.Replay != nil
		w.ZK.ChildOrder = c.ChildOrder
		w.IdleEvery = time.Second
		dyn := func() {
			for _, x := range spec.HA {
				w.Replicate(x)
				w.Apply(x)
			}
		}
		w.OnIdle = dyn
		zero := 0.0
		for _, x := range []string{"h2", "h3"} {
			w.Servers[x].Lag = &zero
		}
		// health records come from the real health loop body of each host's own mysync: the syncer
		// classifies hosts by the lag and settings recorded there
		mgr := h.Start("h1")
		h.Start("h2")
		h.Start("h3")
		h.HealthAll()
		h.Tick(mgr)
		relaxedByMysync := map[string]bool{}
		registered := func(x string) bool { return w.ZK.Exists(vns + "/optimization_nodes/" + x) }
		relaxed := func(x string) bool {
			s, m := w.Servers[x], w.Servers[h.MasterKey()]
			if m == nil || !m.Up {
				return s.FlushLog != 1 || s.SyncBinlog != 1
			}
			return s.FlushLog != m.FlushLog || s.SyncBinlog != m.SyncBinlog
		}
		firstFreezeSeen := false
		speedup := false // the manager registered a node for the pre-switchover speed-up phase in this iteration
		tag4 := func() string {
			if speedup {
				return "/after-speedup-phase"
			}
			return "/no-speedup-phase"
		}
		w.OnApply = append(w.OnApply, func(ap *sim.Applied) {
			if !ap.Effect {
				return
			}
			if ap.Call.Kind == "zk" && ap.Call.Op == "create" && strings.HasPrefix(ap.Call.Target, vns+"/optimization_nodes/") && strings.HasPrefix(ap.Call.Proc, "h") && h.Switch() != nil {
				speedup = true
			}
			if ap.Call.Kind == "sql" {
				x := ap.Call.Target
				switch ap.Call.Op {
				case "SET_FLUSH_LOG", "SET_SYNC_BINLOG":
					s := w.Servers[x]
					relaxedByMysync[x] = s.FlushLog == 2 || s.SyncBinlog == 1000
				case "SET_SUPER_RO":
					if sw := h.Switch(); sw != nil && !firstFreezeSeen {
						firstFreezeSeen = true
						// the speed-up phase must have ended, settings restored, before the freeze
						for _, y := range spec.HA {
							if w.Servers[y].Up && relaxedByMysync[y] {
								violate("4-speedup-phase-ended-before-freeze"+tag4(), fmt.Sprintf("freeze begins while %s still carries the relaxed settings mysync gave it (flush=%d sync_binlog=%d, registered=%v)", y, w.Servers[y].FlushLog, w.Servers[y].SyncBinlog, registered(y)))
							}
						}
					}
				case "SET_WRITABLE":
					if x != h.MasterKey() {
						s := w.Servers[x]
						r.Count("promotions")
						if s.FlushLog == 2 || s.SyncBinlog == 1000 {
							violate("4-never-promoted-with-relaxed-settings"+tag4(), fmt.Sprintf("%s promoted with innodb_flush_log_at_trx_commit=%d sync_binlog=%d", x, s.FlushLog, s.SyncBinlog))
						}
						if registered(x) {
							violate("4-never-promoted-while-registered"+tag4(), fmt.Sprintf("%s promoted while still registered as optimising", x))
						}
					}
				}
			}
			if ap.Call.Kind == "zk" && ap.Call.Op == "delete" && strings.HasPrefix(ap.Call.Target, vns+"/optimization_nodes/") {
				x := ap.Call.Target[len(vns+"/optimization_nodes/"):]
				r.Count("registry_deletes")
				if s := w.Servers[x]; s != nil && s.Up && w.ZK.Exists(vns+"/ha_nodes/"+x) && x != h.MasterKey() && relaxed(x) {
					violate("3-dropped-only-after-settings-restored", fmt.Sprintf("%s removed %s from the registry while it still runs with flush=%d sync_binlog=%d (master %d/%d)", ap.Call.Proc, x, s.FlushLog, s.SyncBinlog, w.Servers[h.MasterKey()].FlushLog, w.Servers[h.MasterKey()].SyncBinlog))
				}
			}
		})
		lagVal := map[string]*float64{"unknown": nil, "low": fp(30), "mid": fp(90), "high": fp(200)}
		deferred := map[string]string{} // health records read but not yet published
		for step, ev := range c.Hist {
			np := len(w.Panics)
			switch {
			case ev == "health":
				h.HealthAll()
			case ev == "healthRead":
				// every host's health loop reads its server now; the records reach ZooKeeper at healthPublish
				old := map[string]string{}
				for _, x := range spec.HA {
					old[x], _ = w.ZK.Get(vns + "/health/" + x)
				}
				h.HealthAll()
				for _, x := range spec.HA {
					deferred[x], _ = w.ZK.Get(vns + "/health/" + x)
					if old[x] != "" {
						w.ZK.Put(vns+"/health/"+x, old[x])
					}
				}
			case ev == "healthPublish":
				for x, rec := range deferred {
					if rec != "" && w.ZK.Exists(vns+"/health/"+x) {
						w.ZK.Put(vns+"/health/"+x, rec)
					}
				}
				deferred = map[string]string{}
			case ev == "mgrTickOnly":
				// a manager iteration on whatever records are published (no refresh): only the invariants
				// that do not depend on the records being current are evaluated
				firstFreezeSeen = false
				speedup = false
				pending := w.ZK.Exists(vns + "/switch")
				h.Tick(mgr)
				m := w.Servers[h.MasterKey()]
				if !pending && !w.ZK.Exists(vns+"/switch") && mgr.state == stateManager && m != nil && m.Up && h.MasterKey() == "h1" {
					r.Count("completed_syncs_on_stale_records")
					var rel []string
					for _, x := range spec.HA {
						if x != h.MasterKey() && w.Servers[x].Up && relaxed(x) && (registered(x) || relaxedByMysync[x]) {
							rel = append(rel, x)
						}
					}
					if len(rel) > 1 {
						violate("1-at-most-one-relaxed-replica", fmt.Sprintf("after a completed sync %v run with relaxed durability settings", rel))
					}
					// (3') nothing mysync relaxed is left relaxed outside the registry
					for _, x := range spec.HA {
						if x != h.MasterKey() && w.Servers[x].Up && relaxed(x) && relaxedByMysync[x] && !registered(x) {
							violate("3-dropped-only-after-settings-restored", fmt.Sprintf("%s runs with the relaxed settings mysync gave it (flush=%d sync_binlog=%d) and is not in the registry after the sync", x, w.Servers[x].FlushLog, w.Servers[x].SyncBinlog))
						}
					}
				}
			case ev == "mgrTick":
				h.HealthAll()
				pending := w.ZK.Exists(vns + "/switch")
				firstFreezeSeen = false
				speedup = false
				// registered hosts and their lag class before the sync
				type pre struct {
					lag *float64
					reg bool
				}
				before := map[string]pre{}
				for _, x := range []string{"h2", "h3"} {
					before[x] = pre{w.Servers[x].Lag, registered(x)}
				}
				h.Tick(mgr)
				m := w.Servers[h.MasterKey()]
				if !pending && !w.ZK.Exists(vns+"/switch") && mgr.state == stateManager && m != nil && m.Up && h.MasterKey() == "h1" {
					r.Count("completed_syncs")
					// (1) at most one replica left relaxed under mysync's control
					var rel []string
					for _, x := range spec.HA {
						if x != h.MasterKey() && w.Servers[x].Up && relaxed(x) && (registered(x) || relaxedByMysync[x]) {
							rel = append(rel, x)
						}
					}
					if len(rel) > 1 {
						violate("1-at-most-one-relaxed-replica", fmt.Sprintf("after a completed sync %v run with relaxed durability settings", rel))
					}
					if len(rel) == 1 {
						r.Count("syncs_leaving_one_optimising")
					}
					// (3') nothing mysync relaxed is left relaxed outside the registry
					for _, x := range spec.HA {
						if x != h.MasterKey() && w.Servers[x].Up && relaxed(x) && relaxedByMysync[x] && !registered(x) {
							violate("3-dropped-only-after-settings-restored", fmt.Sprintf("%s runs with the relaxed settings mysync gave it (flush=%d sync_binlog=%d) and is not in the registry after the sync", x, w.Servers[x].FlushLog, w.Servers[x].SyncBinlog))
						}
					}
					// (2) unknown or converged lag => master's settings and unregistered
					tag2 := "/all-registered-hosts-up"
					for _, x := range w.ZK.Children(vns + "/optimization_nodes") {
						if sv := w.Servers[x]; sv != nil && !sv.Up {
							tag2 = "/another-registered-host-is-down"
						} else if sv != nil && sv.FailOps != nil && tag2 == "/all-registered-hosts-up" {
							tag2 = "/another-registered-host-refuses-the-settings"
						}
					}
					for _, x := range []string{"h2", "h3"} {
						s := w.Servers[x]
						b := before[x]
						if !b.reg || !s.Up || s.FailOps != nil {
							continue // cannot be restored while the server refuses the statements
						}
						if b.lag == nil || *b.lag < 60 {
							if relaxed(x) {
								violate("2-converged-or-unknown-lag-restored"+tag2, fmt.Sprintf("%s (lag %s) still has relaxed settings flush=%d sync_binlog=%d after the sync", x, lagStr(b.lag), s.FlushLog, s.SyncBinlog))
							}
							if registered(x) {
								violate("2-converged-or-unknown-lag-deregistered"+tag2, fmt.Sprintf("%s (lag %s) is still registered after the sync", x, lagStr(b.lag)))
							}
						}
					}
				}
			case strings.HasPrefix(ev, "enable"):
				host := "h" + ev[len("enable"):]
				if w.Servers[host].Up {
					h.RunCLI(host, func(a *App) int { return a.CliEnableOptimization() })
				}
			case ev == "disable2":
				if w.Servers["h2"].Up {
					h.RunCLI("h2", func(a *App) int { return a.CliDisableOptimization() })
				}
			case ev == "disableAll":
				h.RunCLI("h3", func(a *App) int { return a.CliDisableAllOptimization() })
			case strings.HasPrefix(ev, "lag"):
				host := "h" + ev[3:4]
				w.Servers[host].Lag = lagVal[ev[5:]]
			case ev == "status2:enabled":
				if registered("h2") {
					w.ZK.Put(vns+"/optimization_nodes/h2", `{"status":"enabled"}`)
				}
			case ev == "ghost":
				w.ZK.Put(vns+"/optimization_nodes/ghost9", `{"status":""}`)
			case ev == "h2Dies":
				w.Servers["h2"].Crash(w)
			case ev == "h2Starts":
				w.Servers["h2"].Start(w)
				relaxedByMysync["h2"] = false
			case ev == "h2SettingsFail":
				// h2 refuses changes of the durability settings (error 1205) until h2SettingsOK
				w.Servers["h2"].FailOps = map[string]uint16{"SET_FLUSH_LOG": 1205, "SET_SYNC_BINLOG": 1205}
			case ev == "h2Unreachable":
				// h2's mysqld refuses connections for a while (it is not restarted: its settings stay as they are)
				w.Servers["h2"].Up = false
			case ev == "h2Reachable":
				w.Servers["h2"].Up = true
			case ev == "h2SecondSettingFails":
				// only the second of the two statements fails: a start or a stop of the mode gets half way
				w.Servers["h2"].FailOps = map[string]uint16{"SET_SYNC_BINLOG": 1205}
			case ev == "h2SettingsOK":
				w.Servers["h2"].FailOps = nil
			case ev == "fileTo2" || ev == "fileFrom1":
				w.Advance(time.Second)
				if !w.ZK.Exists(vns+"/switch") && h.MasterKey() == "h1" {
					s := Switchover{To: "h2", Cause: CauseWorker, InitiatedBy: "worker", InitiatedAt: time.Now(), MasterTransition: SwitchoverTransition}
					if ev == "fileFrom1" {
						s.To, s.From = "", "h1"
					}
					w.ZK.Put(vns+"/switch", jsonStr(s))
				}
			case ev == "adv5":
				w.Advance(5 * time.Second)
				dyn()
			}
			if r.Replay != nil {
				w.StmtLog = append(w.StmtLog, fmt.Sprintf("== after step %d (%s): registry=%v h2: flush=%d sync_binlog=%d lag=%s  h3: flush=%d sync_binlog=%d lag=%s", step, ev, w.ZK.Children(vns+"/optimization_nodes"),
					w.Servers["h2"].FlushLog, w.Servers["h2"].SyncBinlog, lagStr(w.Servers["h2"].Lag), w.Servers["h3"].FlushLog, w.Servers["h3"].SyncBinlog, lagStr(w.Servers["h3"].Lag)))
			}
			if len(w.Panics) > np || len(w.Unknown) > 0 {
				violate("0-engine", fmt.Sprintf("panics=%v at %s unknown=%v at step %d (%s)", w.Panics, h.PanicWhere(), w.Unknown, step, ev))
				return
			}
		}
		var rb []string
		for x, v := range relaxedByMysync {
			if v {
				rb = append(rb, x)
			}
		}
		sort.Strings(rb)
		canon = h.Canon() + fmt.Sprintf("relaxedBy=%v", rb)
		reg := w.ZK.Children(vns + "/optimization_nodes")
		r.Outcome(fmt.Sprintf("registry=%v relaxed=%v master=%s", reg, rb, h.MasterKey()))
		if r.Replay != nil {
			for _, l := range w.StmtLog {
				if !strings.Contains(l, "(no effect)") {
					r.Logf("%s", l)
				}
			}
		}
	})
	return canon
}

func fp(v float64) *float64 { return &v }

func lagStr(l *float64) string {
	if l == nil {
		return "unknown"
	}
	return fmt.Sprintf("%.0fs", *l)
}

func checkC19(r *vt.Run) {
	var rc c19Case
	if r.ReplayInto(&rc) {
		c19Run(r, rc)
		return
	}
	depth := 4
	if r.Thorough() {
		depth = 6
	}
	r.Bound("depth", depth)
	enabled := func(hist []string, ev string) bool {
		n := 0
		for _, x := range hist {
			if x == ev {
				n++
			}
		}
		switch ev {
		case "mgrTick":
			return true
		case "adv5", "enable2", "enable3":
			return n < 2
		}
		return n < 1
	}
	for _, order := range []int{0, 1} {
		order := order
		runner := func(hist []string) string {
			c := c19Case{order, hist}
			r.Crumb(c)
			if len(hist) == 4 && hist[0] == "lag2:high" && hist[1] == "enable2" {
				r.Sample(c)
			}
			return fmt.Sprint(order) + "|" + c19Run(r, c)
		}
		d := depth
		if order == 1 && r.Quick() {
			d = depth - 1
		}
		if order == 0 || r.Thorough() {
			vBFS(r, fmt.Sprintf("init%d|", order), c19Alphabet, d, enabled, runner)
		}
		// from a state in which h2 is being optimised (lagging, registered, relaxed by the syncer)
		prefix := []string{"lag2:high", "enable2", "mgrTick"}
		vBFS(r, fmt.Sprintf("optimising%d|", order), c19Alphabet, d, enabled, func(hist []string) string {
			return runner(append(append([]string(nil), prefix...), hist...))
		})
		// h2 being optimised and h3 lagging and waiting for its turn
		prefix2 := []string{"lag2:high", "enable2", "mgrTick", "lag3:high", "enable3"}
		vBFS(r, fmt.Sprintf("queue%d|", order), c19Alphabet, d-1, enabled, func(hist []string) string {
			return runner(append(append([]string(nil), prefix2...), hist...))
		})
		// both replicas lagging and registered before the manager has looked: two hosts queued, none started
		prefix3 := []string{"lag2:high", "lag3:high", "enable2", "enable3"}
		vBFS(r, fmt.Sprintf("two-queued%d|", order), c19Alphabet, d-1, enabled, func(hist []string) string {
			return runner(append(append([]string(nil), prefix3...), hist...))
		})
	}
	// stale-snapshot searches (child order 0): from "h2 registered, records say lagging with the
	// master's settings, a fresher read (lag converged, still the master's settings) waits to be
	// published, and the manager has just relaxed h2 on the older records"
	enStale := func(hist []string, ev string) bool {
		n := 0
		for _, x := range hist {
			if x == ev {
				n++
			}
		}
		return n < 2
	}
	prefixS := []string{"lag2:high", "enable2", "health", "lag2:low", "healthRead", "mgrTickOnly"}
	ds := 3
	if r.Thorough() {
		ds = 5
	}
	vBFS(r, "stale|", c19StaleAlphabet, ds, enStale, func(hist []string) string {
		c := c19Case{0, append(append([]string(nil), prefixS...), hist...)}
		r.Crumb(c)
		return "stale|" + c19Run(r, c)
	})
	vBFS(r, "stale0|", c19StaleAlphabet, ds+1, enStale, func(hist []string) string {
		c := c19Case{0, append([]string{"lag2:high", "enable2"}, hist...)}
		r.Crumb(c)
		return "stale0|" + c19Run(r, c)
	})
	r.Bound("stale_snapshot_search_depth", ds)
	r.Bound("initial_states", "converged; h2 lagging, registered and relaxed by the syncer; additionally h3 lagging and registered behind it; both lagging and registered with none started; stale-record states")
}
