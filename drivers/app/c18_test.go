//go:build verif

package app

// C18 Disk-space guard. One real manager tick (stateFirstRun -> stateManager) per cell of the
// decision table; the master's and replicas' disk reports are the health records in the
// coordination tree (written by the harness with exact byte counts), the master's read-only
// state is the fake server's. Oracle: the statement's three-way decision, the statement shape
// (super vs plain) and the low_space key following the last change.

import (
	"fmt"
	"sort"
	"strings"

	nodestate "github.com/yandex/mysync/internal/app/node_state"
	"github.com/yandex/mysync/internal/mysql"
	"github.com/yandex/mysync/internal/verif/sim"
	"github.com/yandex/mysync/internal/verif/vt"
)

func init() { verifChecks["C18"] = checkC18 }

// disk levels
const (
	dNcLo    = iota // nc - eps
	dNc             // nc
	dNcHi           // nc + eps
	dCLo            // c - eps
	dC              // c
	dOver           // > 100 %
	dMissing        // no disk report
	// replica-only kinds
	rNotRunning
	rNotSemi
)

var c18LevelNames = []string{"nc-e", "nc", "nc+e", "c-e", "c", ">100%", "missing", "not-running", "not-semisync"}

type c18Thr struct {
	Name    string
	C, NC   string // yaml values ("" = unset)
	Cv, NCv float64
}

var c18Thresholds = []c18Thr{
	{"c95-nc94.76", "95", "94.76", 95, 94.76},
	{"c95-nc-unset", "95", "", 95, 95},
	{"c100-nc100", "100", "100", 100, 100},
}

// thresholds of the family whose replica records come from the replicas' own health checks (the
// test probe reports whole per cent of a fixed size: levels are taken well off the thresholds)
var c18RealThr = c18Thr{"c95-nc90", "95", "90", 95, 90}

var c18RealPct = map[int]string{dNcLo: "80", dNcHi: "92", dCLo: "93", dC: "97", dOver: "100"}

func c18ThrOf(c c18Case) c18Thr {
	if c.RealHealth {
		return c18RealThr
	}
	return c18Thresholds[c.Thr]
}

const c18Total = 1000000

func c18Used(th c18Thr, lvl int) (uint64, bool) {
	c := uint64(th.Cv * c18Total / 100)
	nc := uint64(th.NCv * c18Total / 100)
	switch lvl {
	case dNcLo:
		return nc - 1, true
	case dNc:
		return nc, true
	case dNcHi:
		if nc+1 > c18Total {
			return 2 * c18Total, true
		}
		return nc + 1, true
	case dCLo:
		return c - 1, true
	case dC:
		return c, true
	case dOver:
		return 2 * c18Total, true
	}
	return 0, false
}

func c18Usage(used uint64) float64 {
	if used > c18Total {
		return 100
	}
	return 100.0 * float64(used) / float64(c18Total)
}

type c18Tick struct {
	Master   int   `json:"master_level"`
	Replicas []int `json:"replica_levels"`
	// OtherManagerUndid: before this iteration another mysync process was manager for a while and made
	// the opposite change (master read-only <-> writable, low_space written accordingly); this process
	// stayed alive and is manager again
	OtherManagerUndid bool `json:"another_manager_made_the_opposite_change_before,omitempty"`
}

type c18Case struct {
	Thr   int       `json:"thresholds"`
	RO    int       `json:"ro_state"` // 0 writable, 1 read_only only, 2 super_read_only
	Keep  bool      `json:"keep_super_writable"`
	WC    int       `json:"wait_count"`
	Ticks []c18Tick `json:"ticks"`
	// RealHealth: the replicas' records are published by the health check of each replica's own
	// mysync, reading the disk probe (a missing report = a probe that fails), not written by hand
	RealHealth bool `json:"replica_records_from_their_own_health_checks,omitempty"`
	// MasterSSOff: rpl_semi_sync_master_enabled is off on the master (first pass after a mysqld restart,
	// after a maintenance) while rpl_semi_sync_master_wait_for_slave_count still holds the count
	MasterSSOff bool `json:"master_side_semi_sync_off,omitempty"`
}

func (c c18Case) String() string {
	var t []string
	for _, tk := range c.Ticks {
		var rl []string
		for _, l := range tk.Replicas {
			rl = append(rl, c18LevelNames[l])
		}
		t = append(t, fmt.Sprintf("master=%s replicas=[%s]", c18LevelNames[tk.Master], strings.Join(rl, ",")))
	}
	real := ""
	if c.MasterSSOff {
		real = " master-side-semi-sync-off"
	}
	if c.RealHealth {
		real += " replica-records-from-real-health-checks"
	}
	return fmt.Sprintf("thr=%s ro=%d keep=%v wc=%d ticks={%s}%s", c18ThrOf(c).Name, c.RO, c.Keep, c.WC, strings.Join(t, "; "), real)
}

// c18Ref: the statement's decision. returns "ro", "rw", "none"; open=true when the statement leaves the cell open.
func c18Ref(th c18Thr, tk c18Tick, wc int) (dec string, open bool) {
	needRo, mayWrite := false, true
	if u, ok := c18Used(th, tk.Master); ok {
		us := c18Usage(u)
		if us >= th.Cv {
			needRo = true
		} else if us > th.NCv {
			mayWrite = false
		}
	} else {
		open = true // missing master report: the statement does not say
	}
	running, low, normal := 0, 0, 0
	for _, l := range tk.Replicas {
		if l == rNotRunning || l == rNotSemi || l == dMissing {
			continue // not a reported running semi-sync replica
		}
		u, _ := c18Used(th, l)
		us := c18Usage(u)
		running++
		if us >= th.Cv {
			low++
		} else if us <= th.NCv {
			normal++
		}
	}
	if running > 0 {
		if low > running-wc {
			needRo = true
		} else if normal == 0 {
			mayWrite = false
		}
	}
	switch {
	case needRo:
		return "ro", open
	case mayWrite:
		return "rw", open
	}
	return "none", open
}

func c18Run(r *vt.Run, c c18Case) {
	r.Eval()
	th := c18ThrOf(c)
	nrep := 0
	for _, tk := range c.Ticks {
		if len(tk.Replicas) > nrep {
			nrep = len(tk.Replicas)
		}
	}
	ha := []string{"h1"}
	for i := 0; i < nrep; i++ {
		ha = append(ha, fmt.Sprintf("h%d", i+2))
	}
	conf := map[string]string{"critical_disk_usage": th.C, "keep_super_writable_on_critical_disk_usage": fmt.Sprint(c.Keep),
		"rpl_semi_sync_master_wait_for_slave_count": fmt.Sprint(c.WC)}
	if th.NC != "" {
		conf["not_critical_disk_usage"] = th.NC
	} else {
		conf["not_critical_disk_usage"] = "0"
	}
	spec := Spec{HA: ha, Conf: conf}
	Bubble(r.T, spec, func(h *H) {
		h.BuildConverged()
		w := h.W
		w.LogStmts = r.Replay != nil
		m := w.Servers["h1"]
		m.ReadOnly, m.SuperRO = c.RO >= 1, c.RO == 2
		m.SSMaster, m.WaitCount = !c.MasterSSOff, c.WC
		a := h.Start("h1")
		ra := map[string]*App{}
		if c.RealHealth {
			for _, host := range ha[1:] {
				ra[host] = h.Start(host)
			}
		}
		type obs struct{ ro, noSuper, rw, lowT, lowF int }
		var o obs
		w.OnApply = append(w.OnApply, func(ap *sim.Applied) {
			if !ap.Effect {
				return
			}
			if ap.Call.Kind == "sql" && ap.Call.Target == "h1" {
				switch ap.Call.Op {
				case "SET_SUPER_RO":
					o.ro++
				case "SET_RO_NOSUPER":
					o.noSuper++
				case "SET_WRITABLE":
					o.rw++
				}
			}
			if ap.Call.Kind == "zk" && ap.Call.Target == vns+"/low_space" && ap.Call.Mut {
				if string(ap.Call.ZKReq.Data) == "true" {
					o.lowT++
				} else {
					o.lowF++
				}
			}
		})
		for ti, tk := range c.Ticks {
			if tk.OtherManagerUndid {
				if m.ReadOnly {
					m.ReadOnly, m.SuperRO = false, false
					w.ZK.Put(vns+"/low_space", "false")
				} else {
					m.ReadOnly, m.SuperRO = true, !c.Keep
					w.ZK.Put(vns+"/low_space", "true")
				}
			}
			// health records as the hosts' own health checks would have published them
			put := func(host string, st *nodestate.NodeState) {
				st.CheckBy, st.PingOk = host, true
				w.ZK.Put(vns+"/health/"+host, jsonStr(st))
			}
			ms := &nodestate.NodeState{IsMaster: true, IsReadOnly: m.ReadOnly, IsSuperReadOnly: m.SuperRO,
				MasterState:   &nodestate.MasterState{ExecutedGtidSet: m.Executed.String()},
				SemiSyncState: &nodestate.SemiSyncState{MasterEnabled: !c.MasterSSOff, WaitSlaveCount: c.WC}}
			if u, ok := c18Used(th, tk.Master); ok {
				ms.DiskState = &nodestate.DiskState{Used: u, Total: c18Total}
			}
			put("h1", ms)
			for i := 0; i < nrep; i++ {
				host := ha[i+1]
				lvl := dNcLo
				if i < len(tk.Replicas) {
					lvl = tk.Replicas[i]
				}
				if c.RealHealth {
					if pct, ok := c18RealPct[lvl]; ok {
						w.VFSPut("/vfs/"+host+"/usedspace", []byte(pct))
					} else {
						w.VFSDel("/vfs/" + host + "/usedspace") // the probe fails
					}
					h.Health(ra[host])
					r.Count("replica_records_from_real_health_checks")
					continue
				}
				zero := 0.0
				st := &nodestate.NodeState{IsReadOnly: true, IsSuperReadOnly: true,
					SlaveState:    &nodestate.SlaveState{MasterHost: "h1", ReplicationState: mysql.ReplicationRunning, ReplicationLag: &zero, ExecutedGtidSet: m.Executed.String()},
					SemiSyncState: &nodestate.SemiSyncState{SlaveEnabled: true, WaitSlaveCount: 1},
					DiskState:     &nodestate.DiskState{Used: 1, Total: c18Total}}
				switch lvl {
				case rNotRunning:
					st.SlaveState.ReplicationState = mysql.ReplicationStopped
				case rNotSemi:
					st.SemiSyncState.SlaveEnabled = false
				case dMissing:
					st.DiskState = nil
				default:
					u, _ := c18Used(th, lvl)
					st.DiskState.Used = u
				}
				put(host, st)
			}
			before := o
			roBefore, sroBefore := m.ReadOnly, m.SuperRO
			lowBefore, lowHad := w.ZK.Get(vns + "/low_space")
			h.Tick(a)
			d := obs{o.ro - before.ro, o.noSuper - before.noSuper, o.rw - before.rw, o.lowT - before.lowT, o.lowF - before.lowF}
			want, open := c18Ref(th, tk, c.WC)
			lowAfter, lowHas := w.ZK.Get(vns + "/low_space")
			got := "none"
			switch {
			case d.ro+d.noSuper > 0 && d.rw == 0:
				got = "ro"
			case d.rw > 0 && d.ro+d.noSuper == 0:
				got = "rw"
			case d.rw > 0:
				got = "both"
			}
			desc := fmt.Sprintf("tick %d of %s: before (ro=%v,sro=%v) after (ro=%v,sro=%v) statements ro=%d ro_nosuper=%d rw=%d low_space %q->%q", ti, c, roBefore, sroBefore, m.ReadOnly, m.SuperRO, d.ro, d.noSuper, d.rw, lowBefore, lowAfter)
			r.Outcome(fmt.Sprintf("want=%s got=%s from-ro=%v", want, got, roBefore))
			if open {
				r.Count("open_cells_missing_master_report")
				continue
			}
			if len(w.Panics) > 0 || len(w.Unknown) > 0 {
				r.Violate("C18/0-engine", fmt.Sprintf("panics=%v unknown=%v in %s", w.Panics, w.Unknown, desc), c)
				return
			}
			switch want {
			case "ro":
				r.Nontrivial(c.String())
				wantSuper := !c.Keep
				if !(m.ReadOnly && m.SuperRO == wantSuper) {
					r.Violate("C18/1-critical-makes-read-only", "master should be read-only ("+map[bool]string{true: "super", false: "plain"}[wantSuper]+") after: "+desc, c)
				}
				if d.rw > 0 {
					r.Violate("C18/1-critical-makes-read-only", "master made writable at critical usage: "+desc, c)
				}
				already := roBefore && sroBefore == wantSuper
				if already && d.ro+d.noSuper > 0 {
					r.Count("redundant_ro_statement")
				}
				if !already {
					if wantSuper && d.noSuper > 0 || !wantSuper && d.ro > 0 {
						r.Violate("C18/2-statement-shape", "wrong statement shape for the super-writable switch: "+desc, c)
					}
					if lowAfter != "true" {
						r.Violate("C18/4-low-space-follows-last-change", "low_space should be true after the change to read-only: "+desc, c)
					}
				}
			case "rw":
				if roBefore {
					r.Nontrivial(c.String())
					if m.ReadOnly {
						r.Violate("C18/3-returns-writable-below-non-critical", "master should have been made writable: "+desc, c)
					} else if lowAfter != "false" {
						r.Violate("C18/4-low-space-follows-last-change", "low_space should be false after the change to writable: "+desc, c)
					}
				}
				if d.ro+d.noSuper > 0 {
					r.Violate("C18/3-returns-writable-below-non-critical", "master made read-only although nothing is critical: "+desc, c)
				}
			case "none":
				r.Nontrivial(c.String())
				if d.ro+d.noSuper+d.rw > 0 || m.ReadOnly != roBefore || m.SuperRO != sroBefore {
					r.Violate("C18/5-grey-zone-untouched", "read-only mode changed inside the hysteresis band: "+desc, c)
				}
			}
			if d.ro+d.noSuper+d.rw == 0 && (lowAfter != lowBefore || lowHas != lowHad) {
				r.Violate("C18/4-low-space-follows-last-change", "low_space changed without a change of mode: "+desc, c)
			}
		}
		if r.Replay != nil {
			for _, l := range w.StmtLog {
				r.Logf("%s", l)
			}
		}
	})
}

func checkC18(r *vt.Run) {
	var rc c18Case
	if r.ReplayInto(&rc) {
		c18Run(r, rc)
		return
	}
	masterLevels := []int{dNcLo, dNc, dNcHi, dCLo, dC, dOver, dMissing}
	repLevels := []int{dNcLo, dNc, dNcHi, dCLo, dC, dOver, dMissing, rNotRunning, rNotSemi}
	maxRep := 2
	if r.Thorough() {
		maxRep = 3
	}
	r.Bound("max_replicas", maxRep)
	// multisets of replica levels (replicas are symmetric in the decision: stated reduction)
	var repSets [][]int
	var rec func(start int, cur []int, n int)
	rec = func(start int, cur []int, n int) {
		if len(cur) == n {
			repSets = append(repSets, append([]int(nil), cur...))
			return
		}
		for i := start; i < len(repLevels); i++ {
			rec(i, append(cur, repLevels[i]), n)
		}
	}
	for n := 0; n <= maxRep; n++ {
		rec(0, nil, n)
	}
	idx := 0
	for ti := range c18Thresholds {
		for ro := 0; ro < 3; ro++ {
			for _, keep := range []bool{false, true} {
				for _, wc := range []int{1, 2} {
					for _, ml := range masterLevels {
						for _, rs := range repSets {
							idx++
							if !r.Mine(idx) {
								continue
							}
							if r.Expired() {
								return
							}
							c := c18Case{Thr: ti, RO: ro, Keep: keep, WC: wc, Ticks: []c18Tick{{Master: ml, Replicas: rs}}}
							if idx%5000 == 17 {
								r.Sample(c)
							}
							r.Crumb(c)
							c18Run(r, c)
						}
					}
					// two-tick histories without replicas: hysteresis and the flag across changes
					for _, l1 := range masterLevels {
						for _, l2 := range masterLevels {
							idx++
							if !r.Mine(idx) {
								continue
							}
							c := c18Case{Thr: ti, RO: ro, Keep: keep, WC: wc, Ticks: []c18Tick{{Master: l1}, {Master: l2}}}
							r.Crumb(c)
							c18Run(r, c)
							// ... and with a tenure of another manager, which made the opposite change, in between:
							// the same change has to be made - and flagged - again
							c = c18Case{Thr: ti, RO: ro, Keep: keep, WC: wc, Ticks: []c18Tick{{Master: l1}, {Master: l1, OtherManagerUndid: true}, {Master: l2}}}
							r.Crumb(c)
							c18Run(r, c)
						}
					}
				}
			}
		}
	}
	// the master side of semi-sync switched off while the count variable still holds the count
	for ro := 0; ro < 3; ro++ {
		for _, wc := range []int{1, 2} {
			for _, ml := range masterLevels {
				for _, rs := range repSets {
					if len(rs) == 0 {
						continue
					}
					idx++
					if !r.Mine(idx) {
						continue
					}
					c := c18Case{Thr: 0, RO: ro, WC: wc, Ticks: []c18Tick{{Master: ml, Replicas: rs}}, MasterSSOff: true}
					r.Crumb(c)
					c18Run(r, c)
				}
			}
		}
	}
	// the replicas' records produced by their own health checks, with a failing probe for "missing"
	realLevels := []int{dNcLo, dNcHi, dCLo, dC, dMissing}
	for ro := 0; ro < 3; ro++ {
		for _, wc := range []int{1, 2} {
			for _, ml := range masterLevels {
				for _, l2 := range realLevels {
					for _, l3 := range realLevels {
						idx++
						if !r.Mine(idx) {
							continue
						}
						c := c18Case{RO: ro, WC: wc, Ticks: []c18Tick{{Master: ml, Replicas: []int{l2, l3}}}, RealHealth: true}
						r.Crumb(c)
						c18Run(r, c)
					}
				}
			}
		}
	}
	_ = sort.Ints
}
