//go:build verif && race

package app

// C20, data-race clause: "the concurrently running loops of one process (manager loop, health,
// recovery and lag checks) do not race on shared memory".
//
// This pass is free-running on purpose (a cooperative scheduler's hand-offs are happens-before
// edges that blind the detector). The binary is built with -race; the environment fakes are
// compiled without instrumentation and guard their state with a raw spin lock, so a call into
// them orders nothing between the calling goroutines. For every enumerated case (tree mutation x
// server state, as in the crash/leak pass) the bodies of the loops of ONE process are started
// together, three rounds, with no synchronisation between them other than mysync's own: whatever
// two bodies touch without a lock is concurrent for the detector, independent of timing. The
// oracle is the race detector's report file.

import (
	"fmt"
	"os"
	"regexp"
	"sort"
	"strings"
	"sync"
	"testing"
	"time"

	"github.com/yandex/mysync/internal/verif/vt"
)

func init() { verifChecks["C20"] = checkC20Race }

var raceLogOff = map[string]int64{}

// newRaceReports returns the race detector reports written since the last call.
func newRaceReports() []string {
	base := os.Getenv("VERIF_RACE_LOG")
	if base == "" {
		return nil
	}
	p := fmt.Sprintf("%s.%d", base, os.Getpid())
	b, err := os.ReadFile(p)
	if err != nil {
		return nil
	}
	off := raceLogOff[p]
	if int64(len(b)) <= off {
		return nil
	}
	txt := string(b[off:])
	raceLogOff[p] = int64(len(b))
	var out []string
	for _, blk := range strings.Split(txt, "==================") {
		if strings.Contains(blk, "WARNING: DATA RACE") {
			out = append(out, strings.TrimSpace(blk))
		}
	}
	return out
}

var raceAccessHdr = regexp.MustCompile(`(?m)^(?:Write|Read|Previous write|Previous read|Atomic|Previous atomic)[^\n]*\n`)
var raceFuncLine = regexp.MustCompile(`(?m)^  (\S+)\(\)\n\s+(\S+):(\d+)`)

// raceSignature names the two accesses of a report by the first mysync frame of each stack
// (function names: stable under line shifts). A report whose innermost non-runtime frame is in the
// environment fakes is not mysync's: the runtime's map functions announce their accesses to the
// detector even when called from the uninstrumented fakes, whose own (invisible) lock orders them.
func raceSignature(rep string) (sig string, ours bool) {
	parts := raceAccessHdr.Split(rep, -1)
	if len(parts) < 3 {
		return "unparsed", true
	}
	var fns []string
	for _, part := range parts[1:3] {
		if i := strings.Index(part, "\n\n"); i >= 0 {
			part = part[:i]
		}
		innermost, name := "", ""
		for _, m := range raceFuncLine.FindAllStringSubmatch(part, -1) {
			fn := m[1]
			if strings.HasPrefix(fn, "runtime.") || strings.HasPrefix(fn, "internal/runtime/") {
				continue
			}
			if innermost == "" {
				innermost = fn
			}
			if name == "" && strings.HasPrefix(fn, "github.com/yandex/mysync/internal/") && !strings.Contains(fn, "/internal/verif/") && !strings.Contains(m[2], "zz_verif") {
				name = strings.TrimPrefix(fn, "github.com/yandex/mysync/internal/")
			}
		}
		if strings.Contains(innermost, "/internal/verif/") {
			return "environment-fake", false
		}
		if name == "" {
			name = innermost
		}
		fns = append(fns, name)
	}
	sort.Strings(fns)
	return fns[0] + "~" + fns[1], true
}

const raceGenerations, raceRounds = 4, 3

func c20RaceRun(r *vt.Run, c c20Case) {
	r.Eval()
	spec := Spec{HA: []string{"h1", "h2", "h3"}, Conf: map[string]string{"failover": "true", "manager_switchover": fmt.Sprint(c.MgrSw),
		"slave_catch_up_timeout": "4s", "wait_start_replication_timeout": "2s", "replication_convergence_timeout_switchover": "4s",
		"switchover_max_attempts": "2", "db_set_ro_force_timeout": "5s", "db_set_ro_timeout": "5s"}}
	for _, m := range c.Tree {
		if strings.HasPrefix(m, "cascade:") {
			spec.Cascade = map[string]string{"c1": "h2"}
		}
	}
	newRaceReports() // drop anything older
	var panics []string
	// own subtest: the testing package fails the (sub)test in which the detector reported something
	r.T.Run("case", func(t *testing.T) {
		Bubble(t, spec, func(h *H) {
			c20Prepare(h, c)
			w := h.W
			a := h.Start("h1")
			st := h.hc[a]
			w.Free = true
			var pm sync.Mutex
			body := func(wg *sync.WaitGroup, name string, f func()) {
				wg.Add(1)
				go func() {
					defer wg.Done()
					defer func() {
						if e := recover(); e != nil {
							pm.Lock()
							panics = append(panics, fmt.Sprintf("%s: %v", name, e))
							pm.Unlock()
						}
					}()
					f()
				}()
			}
			// raceGenerations fresh processes on the host (lazy initialisations race only once per
			// process), raceRounds rounds each, the bodies started in a different rotation every round
			for gen := 0; gen < raceGenerations; gen++ {
				if gen > 0 {
					w.Free = false
					a = h.Replace("h1")
					st = h.hc[a]
					w.Free = true
				}
				a := a
				st := st
				bodies := []struct {
					name string
					f    func()
				}{
					{"manager loop", func() { tickBody(a) }},
					{"health check", func() {
						hc := a.getLocalNodeState()
						st.logFile, st.maxLogPos = hc.UpdateBinlogStatus(st.logFile, st.maxLogPos)
						_ = a.SetHealthState(a.config.Hostname, hc)
					}},
					{"recovery check", func() {
						a.checkRecovery()
						a.checkCrashRecovery()
						a.SetResetupStatus()
					}},
					{"lag check", func() {
						if a.doesResetupFileExist() {
							return
						}
						if a.lagResetupper.CheckNeedResetup(a.cluster) {
							a.writeResetupFile()
						}
					}},
				}
				for round := 0; round < raceRounds; round++ {
					var wg sync.WaitGroup
					for i := range bodies {
						b := bodies[(i+gen+round)%len(bodies)]
						body(&wg, b.name, b.f)
					}
					wg.Wait()
					time.Sleep(5 * time.Second)
				}
			}
			w.Free = false
		})
	})
	for _, rep := range newRaceReports() {
		sig, ours := raceSignature(rep)
		if !ours {
			r.Count("race_reports_outside_mysync_ignored")
			continue
		}
		r.Violate("C20/3-no-data-race/"+sig, fmt.Sprintf("the race detector reports unsynchronised concurrent access between loops of one mysync process; case %+v\n%s", c, rep), c)
	}
	if len(panics) > 0 {
		r.Count("panics_in_free_running_bodies") // the crash clause is decided by the cooperative pass
	}
	r.Outcome("ran")
	r.Nontrivial(fmt.Sprintf("%+v", c))
}

func checkC20Race(r *vt.Run) {
	var rc c20Case
	if r.ReplayInto(&rc) {
		c20RaceRun(r, rc)
		return
	}
	idx := 0
	run := func(c c20Case) {
		idx++
		if !r.Mine(idx) || r.Skip(c) || r.Expired() {
			return
		}
		if idx%37 == 5 {
			r.Sample(c)
		}
		r.Crumb(c)
		c20RaceRun(r, c)
	}
	srvs := []string{"all-up", "master-down", "h2-down"}
	if r.Thorough() {
		srvs = []string{"all-up", "master-down", "h2-down", "cycle", "all-down", "h2-no-plugin", "h2-old-version"}
	}
	r.Bound("race_pass_server_states", len(srvs))
	r.Bound("race_pass_rounds", raceRounds)
	r.Bound("race_pass_process_generations", raceGenerations)
	for _, srv := range srvs {
		for _, ms := range []bool{false, true} {
			run(c20Case{Servers: srv, MgrSw: ms})
			for _, m := range c20TreeMutations {
				run(c20Case{Tree: []string{m}, Servers: srv, MgrSw: ms})
			}
		}
	}
}
