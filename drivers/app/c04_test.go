//go:build verif

package app

// C04 Published active list covers every semi-sync acker and matches the ack count.
// Every transition S1 -> S2 between two membership/health situations of a small cluster: the
// cluster converges under S1 (real manager iterations), the situation changes to S2, and the next
// iteration runs fault-free or with ONE deviation (failed call, lost reply, manager crash before
// or after the call, master dying) at every call boundary of the update; then the (possibly
// restarted) manager iterates on. Invariants are evaluated on ground truth (fake servers' variables
// and the coordination tree) before and after every iteration.

import (
	"encoding/json"
	"fmt"
	"slices"
	"sort"
	"strings"
	"time"

	"github.com/yandex/mysync/internal/verif/sim"
	"github.com/yandex/mysync/internal/verif/vt"
)

func init() { verifChecks["C04"] = checkC04 }

const (
	qHealthy = iota
	qDown
	qCutFromManager
	qDubious
	qIOStopped
	qSQLError
	qWrongSource
	qDiverged
	qLagAdvancing
	qLagStalled
	qMarked
	qRestarted
	qStaleMaster
	qNKinds
)

var c04Names = []string{"healthy", "down", "cut-from-manager", "dubious", "io-stopped", "sql-error", "wrong-source", "diverged",
	"download-lag-advancing", "download-lag-stalled", "marked-for-recovery", "restarted", "stale-master"}

type c04Case struct {
	N           int            `json:"ha_nodes"`
	W           int            `json:"configured_count"`
	MasterFirst bool           `json:"master_first_adjust_ss_order"`
	Cascade     bool           `json:"cascade"`
	Manager     string         `json:"manager_host"`
	S1          []int          `json:"s1"` // condition of h2..hn (manager's own host stays healthy)
	S2          []int          `json:"s2"`
	M2          int            `json:"master_s2"`           // 0 ok, 1 unreachable from the manager, 2 down
	Dev         *sim.Deviation `json:"deviation,omitempty"` // index relative to the start of the S2 iteration
}

func (c c04Case) String() string {
	f := func(s []int) string {
		var r []string
		for _, k := range s {
			r = append(r, c04Names[k])
		}
		return strings.Join(r, ",")
	}
	d := "none"
	if c.Dev != nil {
		d = c.Dev.String()
	}
	return fmt.Sprintf("n=%d w=%d masterFirst=%v cascade=%v manager=%s S1=[%s] S2=[%s] master2=%d dev=%s", c.N, c.W, c.MasterFirst, c.Cascade, c.Manager, f(c.S1), f(c.S2), c.M2, d)
}

const c04BigLog = 300 * 1024 * 1024

// c04Apply sets the condition of replica host; sticky aspects (extra transactions) are kept.
func c04Apply(h *H, host string, k int, manager string) {
	w := h.W
	s := w.Servers[host]
	// reset the non-sticky aspects
	w.SetCut(manager, host, false)
	s.Dubious = false
	if k != qDown {
		if !s.Up && k != qRestarted {
			s.Up = true
		}
	}
	if k != qMarked {
		w.ZK.Del(vns + "/recovery/" + host)
	}
	if k != qStaleMaster && !s.HasSource {
		s.MakeReplica("h1")
	}
	if k != qLagAdvancing && k != qLagStalled {
		s.SourceLogFile, s.ReadSourceLogPos = "mysql-bin-log.000001", w.Servers["h1"].Binlogs[0].Size
		s.IOStalled = false
	}
	if s.HasSource {
		s.Source = "h1"
		if s.Up && k != qIOStopped {
			if !s.IORunning {
				s.IORunning, s.SSLatched = true, s.SSSlave
			}
			s.IOErrno = 0
		}
		if s.Up && k != qSQLError {
			s.SQLRunning, s.SQLErrno = true, 0
		}
	}
	switch k {
	case qDown:
		s.Crash(w)
	case qCutFromManager:
		w.SetCut(manager, host, true)
	case qDubious:
		s.Dubious = true
	case qIOStopped:
		s.IORunning = false
	case qSQLError:
		s.SQLRunning, s.SQLErrno, s.SQLError = false, 1062, "Duplicate entry"
	case qWrongSource:
		s.Source = "elsewhere"
	case qDiverged:
		s.Executed.Add(sim.UUIDFor("foreign"), 1)
	case qLagAdvancing, qLagStalled:
		// a replica that is not semi-sync yet and still has most binary logs to download
		s.SSSlave, s.SSLatched = false, false
		s.SourceLogFile, s.ReadSourceLogPos = "mysql-bin-log.000001", 1000
		s.IOStalled = k == qLagStalled
	case qMarked:
		w.ZK.Put(vns+"/recovery/"+host, "null")
	case qRestarted:
		s.Crash(w)
		s.Start(w)
	case qStaleMaster:
		s.IORunning, s.SQLRunning = false, false
		s.HasSource, s.Source = false, ""
		s.ReadOnly, s.SuperRO = false, false
	}
}

type c04Inv struct {
	a, b   bool
	detail string
}

func c04Check(h *H, c c04Case, conds []int) c04Inv {
	w := h.W
	list := h.ActiveNodes()
	m := w.Servers["h1"]
	inv := c04Inv{a: true, b: true}
	var ds []string
	for i := 2; i <= c.N; i++ {
		host := fmt.Sprintf("h%d", i)
		s := w.Servers[host]
		reach := s.Up && w.Reach(c.Manager, host) && !s.Dubious
		if reach && (s.SSSlave || (s.SSLatched && s.IORunning)) && !slices.Contains(list, host) {
			inv.a = false
			ds = append(ds, fmt.Sprintf("%s acknowledges (semi-sync enabled=%v latched=%v) but is not in the published list %v", host, s.SSSlave, s.SSLatched, list))
		}
	}
	eff := 0
	if m.SSMaster {
		eff = m.WaitCount
	}
	need := min(len(list)/2, c.W)
	if eff < need {
		inv.b = false
		ds = append(ds, fmt.Sprintf("master waits for %d acknowledgements, the published list %v with configured count %d implies %d", eff, list, c.W, need))
	}
	inv.detail = strings.Join(ds, "; ")
	return inv
}

type c04Vio struct{ clause, detail string }

// c04Run executes one case and returns the decision points of the S2 iteration, the descriptor of
// the deviation point and the violations found (attribution to a signature is the caller's job).
func c04Run(r *vt.Run, c c04Case) (points []sim.Point, devDesc string, found []c04Vio) {
	r.Eval()
	base := 0
	violate := func(clause, detail string) { found = append(found, c04Vio{clause, detail}) }
	var ha []string
	for i := 1; i <= c.N; i++ {
		ha = append(ha, fmt.Sprintf("h%d", i))
	}
	spec := Spec{HA: ha, Conf: map[string]string{"failover": "false", "rpl_semi_sync_master_wait_for_slave_count": fmt.Sprint(c.W),
		"master_first_adjust_ss_order": fmt.Sprint(c.MasterFirst), "inactivation_delay": "30s"}}
	if c.Cascade {
		spec.Cascade = map[string]string{"c1": "h2"}
	}
	firstVar := 2
	if c.Manager != "h1" {
		firstVar = 3
	}
	Bubble(r.T, spec, func(h *H) {
		h.BuildConverged()
		w := h.W
		w.LogStmts = r.Replay != nil
		w.Servers["h1"].Binlogs = []sim.Binlog{{Name: "mysql-bin-log.000001", Size: c04BigLog}}
		for _, host := range ha[1:] {
			w.Servers[host].ReadSourceLogPos = c04BigLog
		}
		a := h.Start(c.Manager)
		conds := make([]int, c.N+1) // by host number
		apply := func(S []int) {
			for j, k := range S {
				host := fmt.Sprintf("h%d", firstVar+j)
				conds[firstVar+j] = k
				c04Apply(h, host, k, c.Manager)
			}
		}
		sinceBad := map[string]time.Duration{} // since when a host has been unfit for the list (ground truth)
		badKind := map[string]string{}
		unfit := func(host string) string {
			s := w.Servers[host]
			m := w.Servers["h1"]
			switch {
			case w.ZK.Exists(vns + "/recovery/" + host):
				return "marked-for-recovery"
			case !s.Up:
				return "dead"
			case !s.HasSource || s.Source != "h1" || !s.IORunning || !s.SQLRunning:
				return "not-replicating-from-master"
			}
			for u, bits := range s.Executed {
				if u != m.UUID && bits&^m.Executed[u] != 0 {
					return "diverged"
				}
			}
			if !s.SSSlave && m.Binlogs[0].Size-s.ReadSourceLogPos > 100*1024*1024 {
				return "too-far-behind-in-download"
			}
			return ""
		}
		refresh := func() {
			// the hosts' own health checks and replication progress between iterations
			h.InjectHealth()
			for i := firstVar; i <= c.N; i++ {
				host := fmt.Sprintf("h%d", i)
				sv := w.Servers[host]
				if conds[i] == qLagAdvancing {
					sv.ReadSourceLogPos += 1000
				} else if conds[i] != qLagStalled && sv.Up && sv.HasSource && sv.Source == "h1" && sv.IORunning && w.Servers["h1"].Up {
					// an IO thread that runs against a reachable master has downloaded everything by the next iteration
					sv.SourceLogFile, sv.ReadSourceLogPos = "mysql-bin-log.000001", w.Servers["h1"].Binlogs[0].Size
				}
				if k := unfit(host); k != "" {
					if _, ok := sinceBad[host]; !ok || badKind[host] != k {
						sinceBad[host] = w.Now()
						badKind[host] = k
					}
				} else {
					delete(sinceBad, host)
				}
			}
		}
		crashed := false
		pubOverDead := false
		devDesc = "fault-free"
		tick := func(label string, faultFree bool) bool {
			before := c04Check(h, c, conds)
			listBefore := h.ActiveNodes()
			masterReachAtStart := w.Servers["h1"].Up && w.Reach(c.Manager, "h1")
			start := w.Now()
			nPanics := len(w.Panics)
			h.Tick(a)
			if len(w.Panics) > nPanics || len(w.Unknown) > 0 {
				violate("C04/0-engine", fmt.Sprintf("panics=%v unknown=%v at %s of %s", w.Panics, w.Unknown, label, c))
				return false
			}
			if c.Dev != nil && label == "S2 iteration 0" && base+c.Dev.At < len(w.Trace) {
				pt := w.Trace[base+c.Dev.At]
				role := "replica"
				if pt.Kind == "zk" {
					role = pt.Target[strings.LastIndex(pt.Target, "/")+1:]
					if strings.Contains(pt.Target, "/recovery/") {
						role = "recovery-mark"
					}
					if strings.Contains(pt.Target, "/optimization_nodes") {
						role = "optimization-registry"
					}
				} else if pt.Target == "h1" {
					role = "master"
				}
				class := "failed-call"
				if c.Dev.Kind == sim.DevErr && c.Dev.Arg == 1 && pt.Kind == "zk" {
					class = "failed-call-not-retried" // an error the ZooKeeper client does not retry
				}
				if c.Dev.Kind == sim.DevCrashBefore || c.Dev.Kind == sim.DevCrashAfter {
					class = "manager-crash"
				} else if c.Dev.Kind == sim.DevTargetDownBefore {
					class = "master-dies"
				}
				region := role
				if pt.Kind == "sql" {
					switch pt.Op {
					case "SS_SLAVE_ON", "SS_OFF", "STOP_REPLICA_IO_THREAD", "START_REPLICA_IO_THREAD", "STOP_REPLICA", "START_REPLICA", "lock_timeout", "SET_FLUSH_LOG", "SET_SYNC_BINLOG", "SS_WAIT_COUNT", "SS_MASTER_ON", "ping", "repl_settings":
						region = role + "-semisync-switch"
					default:
						region = role + "-" + pt.Op
					}
				}
				// what the undisturbed iteration was doing: letting replicas join / leave semi-sync
				phase := ""
				for _, q := range w.Trace[base:] {
					if q.Kind == "sql" && q.Target != "h1" && q.Op == "SS_SLAVE_ON" && !strings.Contains(phase, "join") {
						phase += "join"
					}
					if q.Kind == "sql" && q.Target != "h1" && q.Op == "SS_OFF" && !strings.Contains(phase, "leave") {
						phase += "leave"
					}
				}
				if phase == "" {
					phase = "steady"
				}
				// the finding is identified by what the iteration was doing, the kind of fault, the exact call
				// it hit, the adjust order and the cluster shape: the recorded non-atomicity of
				// updateActiveNodes must not hide the same clause failing at another call or in another shape
				_ = region
				order := "replicas-first"
				if c.MasterFirst {
					order = "master-first"
				}
				shape := fmt.Sprintf("n%dw%d", c.N, c.W)
				if c.Cascade {
					shape += "+cascade"
				}
				devDesc = fmt.Sprintf("%s:%s@%s:%s[%s,%s]", phase, class, role, pt.Op, order, shape)
			}
			after := c04Check(h, c, conds)
			list := h.ActiveNodes()
			where := fmt.Sprintf("%s of %s", label, c)
			p := w.Procs[h.ID(a)]
			crashed = p.Crashed
			m := w.Servers["h1"]
			pendingReq := w.ZK.Exists(vns+"/switch") || w.ZK.Exists(vns+"/maintenance")
			// (c) no iteration destroys (a) or (b)
			if !pendingReq {
				if before.a && !after.a {
					violate("C04/3-iteration-never-destroys-a", after.detail+"; at "+where)
				}
				if before.b && !after.b {
					violate("C04/3-iteration-never-destroys-b", after.detail+"; at "+where)
				}
			}
			// (a),(b) after a fault-free completed iteration with the master healthy and writable
			if faultFree && !crashed && m.Up && !m.ReadOnly && !m.Offline && w.Reach(c.Manager, "h1") && !pendingReq {
				if !after.a {
					violate("C04/1-list-covers-every-acker", after.detail+"; after "+where)
				}
				if !after.b {
					violate("C04/2-wait-count-matches-list", after.detail+"; after "+where)
				}
				// (d) forbidden members once the inactivation delay has passed
				for _, host := range list {
					if host == "h1" {
						continue
					}
					if strings.HasPrefix(host, "c") {
						violate("C04/4-list-never-contains-cascade", fmt.Sprintf("cascade replica %s in the published list %v after %s", host, list, where))
						continue
					}
					if since, bad := sinceBad[host]; bad && unfit(host) == badKind[host] && start-since > 31*time.Second {
						violate("C04/4-list-never-contains-"+badKind[host], fmt.Sprintf("%s has been %s for %v and is still in the published list %v after %s", host, badKind[host], start-since, list, where))
					}
				}
			}
			// (e) ... also when the manager's last look at the master before publishing failed
			if c.Dev != nil && label == "S2 iteration 0" && (c.Dev.Kind == sim.DevErr || c.Dev.Kind == sim.DevHang || c.Dev.Kind == sim.DevTargetDownBefore) {
				pub, lastPing := -1, -1
				for i, q := range w.Trace[base:] {
					if q.Kind == "zk" && q.Op == "set" && q.Target == vns+"/active_nodes" {
						pub = i
						break
					}
					if q.Kind == "sql" && q.Target == "h1" && q.Op == "ping" {
						lastPing = i
					}
				}
				if pub >= 0 && lastPing == c.Dev.At && (c.Dev.Kind != sim.DevTargetDownBefore || !w.Servers["h1"].Up) {
					for _, host := range listBefore {
						if !slices.Contains(list, host) {
							violate("C04/5-eviction-only-with-master-reachable", fmt.Sprintf("%s evicted from %v although the manager's last ping of the master before publishing failed, during %s", host, listBefore, where))
						}
					}
				}
			}
			if pubOverDead {
				pubOverDead = false
				for _, host := range listBefore {
					if !slices.Contains(list, host) {
						violate("C04/5-eviction-only-with-master-reachable", fmt.Sprintf("%s evicted from %v by a publication made while the master was down (it died after the manager's last successful ping), during %s", host, listBefore, where))
					}
				}
			}
			// (e) members are evicted only while the manager can reach the master
			if !masterReachAtStart {
				for _, host := range listBefore {
					if !slices.Contains(list, host) && h.W.ZK.Exists(vns+"/active_nodes") {
						violate("C04/5-eviction-only-with-master-reachable", fmt.Sprintf("%s evicted from %v although the manager could not reach the master during %s", host, listBefore, where))
					}
				}
			}
			return true
		}
		// (e) at the instant of publication: a shrinking list must not be published over a dead master
		w.OnApply = append(w.OnApply, func(ap *sim.Applied) {
			if ap.Effect && ap.Call.Kind == "zk" && ap.Call.Op == "set" && ap.Call.Target == vns+"/active_nodes" && !w.Servers["h1"].Up {
				r.Count("publications_with_master_down")
				pubOverDead = true
			}
		})
		// (d) at the instant of publication, faulted iteration or not: no host that carries a recovery mark
		// is added to the list
		pubPrev := h.ActiveNodes()
		w.OnApply = append(w.OnApply, func(ap *sim.Applied) {
			if !ap.Effect || ap.Call.Kind != "zk" || ap.Call.Op != "set" || ap.Call.Target != vns+"/active_nodes" {
				return
			}
			var pub []string
			if json.Unmarshal(ap.Call.ZKReq.Data, &pub) != nil {
				return
			}
			for _, host := range pub {
				// (a member that was in the list already and is merely kept by an intermediate write - SetRecovery
				// of another host re-publishes the old list minus that host - is evicted by the same iteration's
				// update; what must never happen is that a marked host is ADDED)
				if host != h.MasterKey() && w.ZK.Exists(vns+"/recovery/"+host) && !slices.Contains(pubPrev, host) {
					violate("C04/4-list-never-contains-marked-for-recovery/at-publication", fmt.Sprintf("%s published the list %v (before: %v) although %s is marked for recovery; %s", ap.Call.Proc, pub, pubPrev, host, c))
				}
			}
			pubPrev = pub
		})
		h.MarkMonitor(func(host, detail string) {
			violate("C04/4-list-never-contains-marked-for-recovery/at-marking", detail)
		})
		// converge under S1
		apply(c.S1)
		for i := 0; i < 4; i++ {
			refresh()
			if !tick(fmt.Sprintf("S1 iteration %d", i), true) {
				return
			}
			if i == 1 {
				w.Advance(31 * time.Second)
			} else {
				w.Advance(5 * time.Second)
			}
		}
		// change to S2
		apply(c.S2)
		switch c.M2 {
		case 1:
			w.SetCut(c.Manager, "h1", true)
		case 2:
			w.Servers["h1"].Crash(w)
		}
		refresh()
		base = len(w.Trace)
		if c.Dev != nil {
			d := *c.Dev
			d.At += base
			w.Plan[d.At] = d
		}
		if !tick("S2 iteration 0", c.Dev == nil) {
			return
		}
		points = append([]sim.Point(nil), w.Trace[base:]...)
		for i := 1; i <= 3; i++ {
			if crashed {
				for _, zc := range w.Procs[h.ID(a)].ZK {
					w.ZK.Expire(zc)
				}
				a = h.Start(c.Manager)
				crashed = false
			}
			if i == 2 {
				w.Advance(31 * time.Second)
			} else {
				w.Advance(5 * time.Second)
			}
			refresh()
			if !tick(fmt.Sprintf("S2 iteration %d", i), true) {
				return
			}
		}
		list := h.ActiveNodes()
		sort.Strings(list)
		r.Outcome(fmt.Sprintf("list=%v ssm=%v wc=%d", list, w.Servers["h1"].SSMaster, w.Servers["h1"].WaitCount))
		if r.Replay != nil {
			for _, l := range w.StmtLog {
				if !strings.Contains(l, "(no effect)") || strings.Contains(l, "ERR") && !strings.Contains(l, "does not exist") {
					r.Logf("%s", l)
				}
			}
		}
	})
	return
}

// c04Report runs a case and reports its violations. A violation of a deviation case is attributed
// to the deviation only if the same clause does not already fail in the fault-free run of the
// same situations (fewest-deviations attribution).
func c04Report(r *vt.Run, c c04Case) ([]sim.Point, map[string]bool) {
	if c.Dev != nil {
		b := c
		b.Dev = nil
		_, _, bf := c04Run(r, b)
		bc := map[string]bool{}
		for _, v := range bf {
			bc[v.clause] = true
		}
		c04ReportDev(r, c, bc)
		return nil, bc
	}
	pts, _, found := c04Run(r, c)
	bc := map[string]bool{}
	for _, v := range found {
		bc[v.clause] = true
		r.Violate(v.clause+"/fault-free", v.detail, c)
	}
	return pts, bc
}

func c04ReportDev(r *vt.Run, c c04Case, baseClauses map[string]bool) {
	_, desc, found := c04Run(r, c)
	for _, v := range found {
		if baseClauses[v.clause] {
			continue
		}
		r.Violate(v.clause+"/"+desc, v.detail, c)
	}
}

func checkC04(r *vt.Run) {
	var rc c04Case
	if r.ReplayInto(&rc) {
		c04Report(r, rc)
		return
	}
	type cfg struct {
		n, w        int
		masterFirst bool
		cascade     bool
		manager     string
		nvar        int // number of varying replicas; -1: ALL replicas vary together (the same situation for every one)
		kinds       []int
	}
	var cfgs []cfg
	if r.Quick() {
		cfgs = []cfg{{3, 1, true, false, "h1", 1, nil}, {3, 1, false, true, "h2", 1, nil}, {4, 2, true, false, "h1", 1, nil},
			{3, 1, true, false, "h1", 2, []int{qHealthy, qSQLError, qMarked}},
			{4, 2, true, false, "h1", -1, nil}, {4, 2, false, false, "h1", -1, nil}}
	} else {
		cfgs = []cfg{{3, 1, true, false, "h1", 2, nil}, {3, 1, false, true, "h1", 1, nil}, {3, 2, true, false, "h2", 1, nil}, {2, 1, true, false, "h1", 1, nil},
			{4, 2, true, false, "h1", 2, nil}, {4, 2, false, false, "h2", 1, nil}, {4, 3, false, true, "h1", 1, nil}, {5, 2, true, false, "h1", 1, nil}, {5, 3, false, false, "h2", 1, nil},
			{4, 2, true, false, "h1", -1, nil}, {4, 2, false, false, "h1", -1, nil}, {5, 3, true, false, "h1", -1, nil}, {3, 2, true, false, "h1", -1, nil}}
	}
	var cs []string
	for _, c := range cfgs {
		cs = append(cs, fmt.Sprintf("n=%d w=%d masterFirst=%v cascade=%v manager=%s varying=%d", c.n, c.w, c.masterFirst, c.cascade, c.manager, c.nvar))
	}
	r.Bound("configurations", cs)
	r.Bound("deviation_bound", 1)
	idx := 0
	for _, cf := range cfgs {
		nrep := cf.n - 1
		if cf.manager != "h1" {
			nrep = cf.n - 2
		}
		uniform := cf.nvar < 0
		nvar := min(cf.nvar, nrep)
		if uniform {
			nvar = 1
		}
		if nvar < 1 {
			continue
		}
		kinds := cf.kinds
		if kinds == nil {
			for k := 0; k < qNKinds; k++ {
				kinds = append(kinds, k)
			}
		}
		nk := len(kinds)
		total := 1
		for i := 0; i < nvar; i++ {
			total *= nk
		}
		mk := func(code int) []int {
			s := make([]int, nrep)
			if uniform { // the whole replica set leaves / returns / breaks at once
				for i := range s {
					s[i] = kinds[code%nk]
				}
				return s
			}
			for i := 0; i < nvar; i++ {
				s[i] = kinds[code%nk]
				code /= nk
			}
			return s
		}
		m2s := []int{0, 2}
		if cf.manager != "h1" {
			m2s = []int{0, 1, 2}
		}
		for s1 := 0; s1 < total; s1++ {
			for s2 := 0; s2 < total; s2++ {
				for _, m2 := range m2s {
					if m2 != 0 && nvar > 1 && s2%nk != s2/nk && r.Quick() {
						continue
					}
					idx++
					if !r.Mine(idx) {
						continue
					}
					if r.Expired() {
						return
					}
					c := c04Case{N: cf.n, W: cf.w, MasterFirst: cf.masterFirst, Cascade: cf.cascade, Manager: cf.manager, S1: mk(s1), S2: mk(s2), M2: m2}
					r.Crumb(c)
					pts, baseClauses := c04Report(r, c)
					if idx%97 == 1 {
						r.Sample(c)
					}
					r.State(fmt.Sprintf("%d/%d/%v/%v/%s/%v/%v/%d", cf.n, cf.w, cf.masterFirst, cf.cascade, cf.manager, c.S1, c.S2, m2))
					// deviations at the call boundaries of the S2 iteration
					upd := -1
					for i, p := range pts {
						if p.Kind == "zk" && p.Op == "children" && p.Target == vns+"/recovery" {
							upd = i
							break
						}
					}
					for i, p := range pts {
						var devs []sim.Deviation
						if p.Mut {
							devs = append(devs, sim.Deviation{At: i, Kind: sim.DevCrashBefore}, sim.Deviation{At: i, Kind: sim.DevCrashAfter},
								sim.Deviation{At: i, Kind: sim.DevLost}, sim.Deviation{At: i, Kind: sim.DevErr})
						} else if upd >= 0 && i >= upd && !p.Fails {
							devs = append(devs, sim.Deviation{At: i, Kind: sim.DevErr})
							if p.Kind == "zk" {
								// a failed READ of the coordination service that the client does not retry (the
								// retried kind is invisible to the caller)
								devs = append(devs, sim.Deviation{At: i, Kind: sim.DevErr, Arg: 1})
							}
						}
						if upd >= 0 && i >= upd && p.Kind == "sql" {
							marg := 1 // index+1 of h1 among the sorted server names
							if cf.cascade {
								marg = 2 // "c1" sorts before "h1"
							}
							devs = append(devs, sim.Deviation{At: i, Kind: sim.DevTargetDownBefore, Arg: marg}) // the master dies before this call
						}
						for _, d := range devs {
							d := d
							cc := c
							cc.Dev = &d
							r.Crumb(cc)
							c04ReportDev(r, cc, baseClauses)
							r.Transition()
							r.Nontrivial(cc.String())
						}
					}
				}
			}
		}
	}
}
