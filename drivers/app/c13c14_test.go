//go:build verif

package app

// C13 (second half): findMostRecentNodeAndDetectSplitbrain on every list of positions over a
// family of GTID sets containing chains and antichains.
// C14: getMostDesirableNode / getMostPriorityNode / filterOutNodeFromPositions on every candidate
// list over a grid of priorities, lags and inclusion-ordered or incomparable sets, in the call
// shape of performSwitchover (candidates minus the `from` host).

import (
	"fmt"
	"strings"
	"time"

	"github.com/rs/zerolog"

	"github.com/yandex/mysync/internal/config"
	"github.com/yandex/mysync/internal/mysql"

	"github.com/yandex/mysync/internal/mysql/gtids"
	"github.com/yandex/mysync/internal/verif/sim"
	"github.com/yandex/mysync/internal/verif/vt"
)

func init() {
	verifChecks["C13"] = checkC13App
	verifChecks["C14"] = checkC14
}

const vUA = "11111111-1111-1111-1111-111111111111"
const vUB = "22222222-2222-2222-2222-222222222222"

// family of sets as masks over (a1,a2,a3,b1,b2,b3)
type vSet struct {
	mask uint8
	text string
	set  gtids.GTIDSet
}

func vMkSet(mask uint8) vSet {
	var parts []string
	for u, name := range []string{vUA, vUB} {
		var iv []string
		for g := 0; g < 3; g++ {
			if mask&(1<<uint(u*3+g)) != 0 {
				iv = append(iv, fmt.Sprint(g+1))
			}
		}
		if len(iv) > 0 {
			parts = append(parts, name+":"+strings.Join(iv, ":"))
		}
	}
	t := strings.Join(parts, ",")
	return vSet{mask, t, gtids.ParseGtidSet(t)}
}

type c13aCase struct {
	Sets []uint8   `json:"sets"`
	Lags []float64 `json:"lags"`
}

func c13aRun(r *vt.Run, fam map[uint8]vSet, c c13aCase) {
	r.Eval()
	pos := make([]nodePosition, len(c.Sets))
	for i := range c.Sets {
		pos[i] = nodePosition{host: fmt.Sprintf("n%d", i), gtidset: fam[c.Sets[i]].set, lag: c.Lags[i]}
	}
	host, set, sb := findMostRecentNodeAndDetectSplitbrain(pos)
	// reference: exists i containing all
	exists := false
	for i := range c.Sets {
		all := true
		for j := range c.Sets {
			if c.Sets[j]&^c.Sets[i] != 0 {
				all = false
			}
		}
		if all {
			exists = true
		}
	}
	if !exists {
		r.Nontrivial(fmt.Sprint(c.Sets))
		r.Outcome("splitbrain")
	} else {
		r.Outcome("chain")
	}
	if sb != !exists {
		r.Violate("C13/7-most-recent-splitbrain-iff-no-maximum", fmt.Sprintf("sets %v: splitbrain=%v but a node containing all others exists=%v", c.Sets, sb, exists), c)
		return
	}
	if sb {
		return
	}
	idx := -1
	for i := range pos {
		if pos[i].host == host {
			idx = i
		}
	}
	if idx < 0 {
		r.Violate("C13/8-most-recent-contains-all", fmt.Sprintf("sets %v: returned host %q is not in the list", c.Sets, host), c)
		return
	}
	for j := range c.Sets {
		if c.Sets[j]&^c.Sets[idx] != 0 {
			r.Violate("C13/8-most-recent-contains-all", fmt.Sprintf("sets %v: returned %s whose set lacks transactions of n%d", c.Sets, host, j), c)
		}
	}
	if set == nil || !set.Equal(pos[idx].gtidset) {
		r.Violate("C13/8-most-recent-contains-all", fmt.Sprintf("sets %v: returned set differs from the returned host's set", c.Sets), c)
	}
}

func checkC13App(r *vt.Run) {
	masks := []uint8{0, 0b000001, 0b000011, 0b000111, 0b001000, 0b001001, 0b001011, 0b011001}
	fam := map[uint8]vSet{}
	for _, m := range masks {
		fam[m] = vMkSet(m)
	}
	var rc c13aCase
	if r.ReplayInto(&rc) {
		if len(rc.Sets) > 0 {
			c13aRun(r, fam, rc)
		}
		return
	}
	maxLen := 4
	if r.Thorough() {
		maxLen = 5
	}
	r.Bound("max_list", maxLen)
	lags := []float64{0, 5}
	opts := len(masks) * len(lags)
	idx := 0
	for n := 1; n <= maxLen; n++ {
		total := 1
		for i := 0; i < n; i++ {
			total *= opts
		}
		for code := 0; code < total; code++ {
			idx++
			if !r.Mine(idx) {
				continue
			}
			c := c13aCase{make([]uint8, n), make([]float64, n)}
			x := code
			for i := 0; i < n; i++ {
				o := x % opts
				x /= opts
				c.Sets[i] = masks[o/len(lags)]
				c.Lags[i] = lags[o%len(lags)]
			}
			if n == 3 && code == 1234 {
				r.Sample(c)
			}
			c13aRun(r, fam, c)
		}
	}
}

// ---------------------------------------------------------------------------------------------

type c14Cand struct {
	Prio int64   `json:"prio"`
	Lag  float64 `json:"lag"`
	Set  uint8   `json:"set"`
}

type c14Case struct {
	Cands []c14Cand `json:"cands"`
	Bound float64   `json:"bound_s"`
	From  int       `json:"from"` // index of the host the switch moves away from, -1 none
	// Optimize: choose through getMostDesirableReplicaToOptimize (the "or to optimise" path of the
	// statement; the bound is the high replication mark) instead of getMostDesirableNode
	Optimize bool `json:"choose_replica_to_optimize,omitempty"`
	// Cfg: the bound the call runs with is the one the switch helper derives from this configuration
	// (as performSwitchover does); Bound then holds the configured priority_choice_max_lag, which is
	// what the statement's "configured bound" means to the oracle
	Cfg  *c14Cfg  `json:"config,omitempty"`
	Live *c14Live `json:"live,omitempty"`
}

// c14Live: the choice as the daemon makes it. h2 carries priority 10, h3 priority 0, both caught up and
// without lag; a switchover away from h1 is pending; one READ of the coordination service in the
// manager's first iteration fails (FailAt < 0: none). Whatever is promoted within three iterations
// must be h2.
type c14Live struct {
	FailAt  int `json:"failing_read"`
	Flavour int `json:"error_flavour"` // 0 connection closed (retried by the client), 1 no server (not retried)
}

func c14LiveRun(r *vt.Run, c c14Case) (points []sim.Point) {
	r.Eval()
	spec := Spec{HA: []string{"h1", "h2", "h3"}, Conf: map[string]string{"failover": "false", "slave_catch_up_timeout": "6s",
		"wait_start_replication_timeout": "2s", "replication_convergence_timeout_switchover": "10s"}}
	Bubble(r.T, spec, func(h *H) {
		h.BuildConverged()
		w := h.W
		w.LogStmts = r.Replay != nil
		w.ZK.Put(vns+"/ha_nodes/h2", `{"priority":10}`)
		w.ZK.Put(vns+"/switch", jsonStr(Switchover{From: "h1", Cause: CauseManual, InitiatedBy: "test", InitiatedAt: time.Now(), MasterTransition: SwitchoverTransition}))
		promoted := ""
		w.OnApply = append(w.OnApply, func(ap *sim.Applied) {
			if ap.Effect && ap.Call.Kind == "sql" && ap.Call.Op == "SET_WRITABLE" && ap.Call.Target != "h1" && promoted == "" {
				promoted = ap.Call.Target
			}
		})
		mgr := h.Start("h1")
		for it := 0; it < 3 && promoted == ""; it++ {
			h.InjectHealth()
			base := len(w.Trace)
			if it == 0 && c.Live.FailAt >= 0 {
				w.Plan[base+c.Live.FailAt] = sim.Deviation{At: base + c.Live.FailAt, Kind: sim.DevErr, Arg: c.Live.Flavour}
			}
			h.Tick(mgr)
			if it == 0 {
				points = append([]sim.Point(nil), w.Trace[base:]...)
			}
			w.Advance(5 * time.Second)
		}
		if len(w.Panics) > 0 || len(w.Unknown) > 0 {
			r.Violate("C14/0-engine", fmt.Sprintf("panics=%v unknown=%v", w.Panics, w.Unknown), c)
			return
		}
		r.Outcome("live-promoted=" + promoted)
		if promoted != "" && promoted != "h2" {
			what := "no failing call"
			if c.Live.FailAt >= 0 && c.Live.FailAt < len(points) {
				what = fmt.Sprintf("failing read %s %s (flavour %d)", points[c.Live.FailAt].Op, points[c.Live.FailAt].Target, c.Live.Flavour)
			}
			r.Violate("C14/5-top-priority-within-bound/as-the-daemon-collects-the-candidates", fmt.Sprintf("h2 (priority 10, no lag, caught up) was offered but %s was promoted; %s", promoted, what), c)
		}
		if r.Replay != nil {
			for _, l := range w.StmtLog {
				r.Logf("%s", l)
			}
		}
	})
	return
}

type c14Cfg struct {
	Async      bool    `json:"async"`
	AllowedLag float64 `json:"async_allowed_lag_s"`
}

var vNop = zerolog.Nop()

func c14Run(r *vt.Run, fam map[uint8]vSet, c c14Case) {
	r.Eval()
	all := make([]nodePosition, len(c.Cands))
	for i, cd := range c.Cands {
		all[i] = nodePosition{host: fmt.Sprintf("n%d", i), gtidset: fam[cd.Set].set, lag: cd.Lag, priority: cd.Prio}
	}
	from := ""
	if c.From >= 0 {
		from = fmt.Sprintf("n%d", c.From)
	}
	pos := filterOutNodeFromPositions(all, from)
	bound := time.Duration(c.Bound * float64(time.Second))
	if c.Cfg != nil {
		bound = mysql.NewSwitchHelper(&config.Config{ASync: c.Cfg.Async, AsyncAllowedLag: time.Duration(c.Cfg.AllowedLag * float64(time.Second)),
			PriorityChoiceMaxLag: bound, SemiSync: !c.Cfg.Async, RplSemiSyncMasterWaitForSlaveCount: 1}).GetPriorityChoiceMaxLag()
		r.Count("bound_derived_from_configuration")
	}
	type res struct {
		host string
		err  error
	}
	ch := make(chan res, 1)
	go func() {
		if c.Optimize {
			app := &App{logger: &vNop, config: &config.Config{OptimizationConfig: config.OptimizationConfig{HighReplicationMark: bound}}}
			h, err := app.getMostDesirableReplicaToOptimize(pos)
			ch <- res{h, err}
			return
		}
		h, err := getMostDesirableNode(&vNop, pos, bound)
		ch <- res{h, err}
	}()
	var got res
	select {
	case got = <-ch:
	case <-time.After(5 * time.Second):
		// one retry before calling it non-termination (only wall-clock oracle; margin >= 10^6 x)
		select {
		case got = <-ch:
		case <-time.After(5 * time.Second):
			r.Violate("C14/1-terminates", "getMostDesirableNode did not return within 10 s", c)
			r.Abort("a call under test did not terminate; worker stopped after reporting it")
			return
		}
	}
	bad := func(clause, msg string) {
		if c.Optimize {
			clause += "/replica-to-optimize"
		}
		r.Violate("C14/"+clause, fmt.Sprintf("%s; candidates=%+v bound=%vs from=%q result=%q err=%v", msg, c.Cands, c.Bound, from, got.host, got.err), c)
	}
	// offered = all minus from
	var offered []int
	for i := range all {
		if all[i].host != from {
			offered = append(offered, i)
		}
	}
	if len(offered) == 0 {
		if got.err == nil {
			bad("2-error-iff-none-offered", "no candidate offered but no error")
		}
		r.Outcome("none")
		return
	}
	if got.err != nil {
		bad("2-error-iff-none-offered", "candidates offered but an error was returned")
		return
	}
	ri := -1
	for _, i := range offered {
		if all[i].host == got.host {
			ri = i
		}
	}
	if got.host == from && from != "" {
		bad("3-never-the-from-host", "the host the switch moves away from was chosen")
		return
	}
	if ri < 0 {
		bad("4-result-is-a-candidate", "result is not one of the offered candidates")
		return
	}
	// T: the top-priority candidate by the statement's tie-breaks
	var maxP int64 = -1 << 62
	for _, i := range offered {
		if all[i].priority > maxP {
			maxP = all[i].priority
		}
	}
	isTop := func(i int) bool {
		if all[i].priority != maxP {
			return false
		}
		for _, j := range offered {
			if j == i || all[j].priority != maxP {
				continue
			}
			sj, si := c.Cands[j].Set, c.Cands[i].Set
			if si&^sj == 0 && sj != si { // j strictly contains i
				return false
			}
			if sj == si && all[j].lag < all[i].lag {
				return false
			}
		}
		return true
	}
	// admissible tops within bound
	anyTopWithin, resIsTop := false, isTop(ri)
	var topLagMin float64 = 1e300
	for _, i := range offered {
		if isTop(i) {
			if all[i].lag <= c.Bound {
				anyTopWithin = true
			}
			if all[i].lag < topLagMin {
				topLagMin = all[i].lag
			}
		}
	}
	_ = topLagMin
	if resIsTop {
		r.Outcome("top")
	} else {
		r.Outcome("fresher")
		r.Nontrivial(fmt.Sprintf("%+v/%v/%d", c.Cands, c.Bound, c.From))
	}
	if !resIsTop {
		// must be smaller in lag by more than the bound than SOME top candidate whose lag exceeds the bound
		ok := false
		for _, i := range offered {
			if isTop(i) && all[i].lag > c.Bound && all[ri].lag < all[i].lag-c.Bound {
				ok = true
			}
		}
		if !ok {
			bad("5-top-priority-within-bound", "result is neither the highest-priority candidate nor fresher than it by more than the bound")
		}
		// the unique-top case: if the (unique) top candidate is within the bound it must be returned
		nTop := 0
		for _, i := range offered {
			if isTop(i) {
				nTop++
			}
		}
		if nTop == 1 && anyTopWithin {
			bad("5-top-priority-within-bound", "the highest-priority candidate is within the lag bound but was not returned")
		}
	}
	// coincidence with most recent: equal priorities, all lags within the bound, chain
	eq := true
	for _, i := range offered {
		if all[i].priority != maxP || all[i].lag > c.Bound {
			eq = false
		}
	}
	if eq {
		mr, mrSet, sb := findMostRecentNodeAndDetectSplitbrain(pos)
		if !sb {
			if !fam[c.Cands[ri].Set].set.Equal(mrSet) {
				bad("6-coincides-with-most-recent", fmt.Sprintf("equal priorities and lags within the bound, but result differs from the most recent node %s", mr))
			}
			r.Count("coincidence_checked")
		}
	}
}

func checkC14(r *vt.Run) {
	masks := []uint8{0b000001, 0b000011, 0b000111, 0b001001, 0b000101}
	fam := map[uint8]vSet{}
	for _, m := range masks {
		fam[m] = vMkSet(m)
	}
	var rc c14Case
	if r.ReplayInto(&rc) {
		if rc.Live != nil {
			c14LiveRun(r, rc)
			return
		}
		c14Run(r, fam, rc)
		return
	}
	// the candidates as the daemon collects them (positions from SQL, priorities from the coordination
	// service): one failing read at every read of the first iteration (b = 1), two error flavours
	if r.Mine(0) {
		pts := c14LiveRun(r, c14Case{Live: &c14Live{FailAt: -1}})
		n := 0
		for i, p := range pts {
			if p.Fails || p.Mut || p.Kind != "zk" {
				continue
			}
			for fl := 0; fl < 2; fl++ {
				cc := c14Case{Live: &c14Live{FailAt: i, Flavour: fl}}
				r.Crumb(cc)
				c14LiveRun(r, cc)
				n++
			}
		}
		r.Add("live_failing_reads", n)
	}
	prios := []int64{0, 1, 5}
	lags := []float64{0, 59, 60, 61, 200, 99999999}
	bounds := []float64{0, 60, 3600}
	fullLen, redLen := 3, 4
	if r.Thorough() {
		fullLen, redLen = 4, 5
	}
	r.Bound("full_alphabet_list_length", fullLen)
	r.Bound("reduced_alphabet_list_length", redLen)
	var full, red []c14Cand
	for _, p := range prios {
		for _, l := range lags {
			for _, m := range masks {
				full = append(full, c14Cand{p, l, m})
			}
		}
	}
	for _, p := range []int64{0, 5} {
		for _, l := range []float64{0, 61, 99999999} {
			for _, m := range masks[:3] {
				red = append(red, c14Cand{p, l, m})
			}
		}
	}
	idx := 0
	enum := func(alpha []c14Cand, n int) {
		total := 1
		for i := 0; i < n; i++ {
			total *= len(alpha)
		}
		for code := 0; code < total; code++ {
			idx++
			if !r.Mine(idx) {
				continue
			}
			if idx%4096 == 0 && r.Expired() {
				return
			}
			cands := make([]c14Cand, n)
			x := code
			for i := 0; i < n; i++ {
				cands[i] = alpha[x%len(alpha)]
				x /= len(alpha)
			}
			for _, b := range bounds {
				for _, from := range []int{-1, 0} {
					if from >= n {
						continue
					}
					c := c14Case{Cands: cands, Bound: b, From: from}
					if n == 3 && code == 77777 && b == 60 && from == 0 {
						r.Sample(c)
					}
					r.Crumb(c)
					c14Run(r, fam, c)
					if n <= 2 || r.Thorough() && n <= 3 {
						c.Optimize = true
						r.Crumb(c)
						c14Run(r, fam, c)
					}
				}
			}
		}
	}
	for n := 0; n <= fullLen; n++ {
		enum(full, n)
	}
	enum(red, redLen)
	// bounds and lags with a sub-second part (a custom lag query returns fractions; durations in the
	// configuration may be given in milliseconds): every list of up to 3 candidates
	var falpha []c14Cand
	for _, p := range []int64{0, 5} {
		for _, l := range []float64{0, 0.4, 0.9, 1.2, 1.7, 2.2, 2.9, 4} {
			for _, m := range masks[:2] {
				falpha = append(falpha, c14Cand{p, l, m})
			}
		}
	}
	for n := 1; n <= 3; n++ {
		total := 1
		for i := 0; i < n; i++ {
			total *= len(falpha)
		}
		for code := 0; code < total; code++ {
			idx++
			if !r.Mine(idx) {
				continue
			}
			cands := make([]c14Cand, n)
			x := code
			for i := 0; i < n; i++ {
				cands[i] = falpha[x%len(falpha)]
				x /= len(falpha)
			}
			for _, b := range []float64{0.5, 1.5, 2.5} {
				c := c14Case{Cands: cands, Bound: b, From: -1}
				r.Crumb(c)
				c14Run(r, fam, c)
				if n <= 2 {
					c.Optimize = true
					c14Run(r, fam, c)
				}
			}
		}
	}
	r.Bound("sub_second_bounds_s", []float64{0.5, 1.5, 2.5})
	// the bound as the daemon derives it from its configuration (NewSwitchHelper): every list of up
	// to 3 candidates over lags around both settings x sync/async x async_allowed_lag below, at and
	// above priority_choice_max_lag
	var calpha []c14Cand
	for _, p := range []int64{0, 5} {
		for _, l := range []float64{0, 5, 30, 61, 150} {
			for _, m := range masks[:2] {
				calpha = append(calpha, c14Cand{p, l, m})
			}
		}
	}
	for n := 1; n <= 3; n++ {
		total := 1
		for i := 0; i < n; i++ {
			total *= len(calpha)
		}
		for code := 0; code < total; code++ {
			idx++
			if !r.Mine(idx) {
				continue
			}
			cands := make([]c14Cand, n)
			x := code
			for i := 0; i < n; i++ {
				cands[i] = calpha[x%len(calpha)]
				x /= len(calpha)
			}
			for _, cf := range []c14Cfg{{false, 0}, {false, 10}, {true, 0}, {true, 10}, {true, 60}, {true, 100}} {
				cf := cf
				c := c14Case{Cands: cands, Bound: 60, From: -1, Cfg: &cf}
				r.Crumb(c)
				c14Run(r, fam, c)
			}
		}
	}
}
