//go:build verif

package app

// C09 Maintenance freezes automation; leaving re-learns the real master. BFS over event
// histories: maintenance on (full/light, through the real CLI) / off / key deleted by hand,
// manager and candidate iterations, mysync restart, coordination outage and heal, operator
// topology edits while paused (move the master by hand, create two masters, stop replication,
// make a replica writable), a racing switch request, master failure.

import (
	"encoding/json"
	"fmt"
	"os"
	"strings"
	"time"

	"github.com/yandex/mysync/internal/verif/sim"
	"github.com/yandex/mysync/internal/verif/vt"
)

func init() { verifChecks["C09"] = checkC09 }

type c09Case struct {
	DisableSS bool     `json:"disable_semi_sync_replication_on_maintenance"`
	Hist      []string `json:"history"`
	Cascade   bool     `json:"with_cascade_replica_c1,omitempty"`
}

var c09Alphabet = []string{"mgrTick", "candTick", "onFull", "onLight", "off", "delKey", "restartMgr", "zkDown", "zkUp",
	"promoteH2", "twoMasters", "stopReplH3", "writableH3", "fileTo2", "fileForced", "fileStartedForced", "h1Dies", "adv5", "operatorSemiSyncOn"}

func c09Run(r *vt.Run, c c09Case) (canon string) {
	r.Eval()
	spec := Spec{HA: []string{"h1", "h2", "h3"}, Conf: map[string]string{"failover": "true", "failover_cooldown": "1s", "slave_catch_up_timeout": "6s",
		"wait_start_replication_timeout": "2s", "replication_convergence_timeout_switchover": "5s", "dcs_wait_timeout": "4s",
		"disable_semi_sync_replication_on_maintenance": fmt.Sprint(c.DisableSS)}}
	if c.Cascade {
		spec.Cascade = map[string]string{"c1": "h2"}
	}
	violate := func(clause, detail string) {
		r.Violate("C09/"+clause, detail+fmt.Sprintf("; disable_semisync_on_maintenance=%v cascade=%v history %v", c.DisableSS, c.Cascade, c.Hist), c)
	}
	Bubble(r.T, spec, func(h *H) {
		h.BuildConverged()
		w := h.W
		w.LogStmts = r.Replay != nil
		w.IdleEvery = time.Second
		dyn := func() {
			for _, x := range spec.HA {
				w.Replicate(x)
				w.Apply(x)
			}
		}
		w.OnIdle = dyn
		mgr := h.Start("h1")
		cand := h.Start("h2")
		h.InjectHealth()
		h.Tick(mgr)
		h.Tick(cand)
		maint := func() *Maintenance {
			var m Maintenance
			if !h.ZGet("maintenance", &m) {
				return nil
			}
			return &m
		}
		var tickMastersAtStart []string
		inTickOf := ""
		// leaveRefused: a leave was asked for, but this iteration began with no or several alive masters:
		// the leave cannot succeed, "the mode is kept" - and with it the freeze
		leaveRefused := func() bool {
			m := maint()
			return m != nil && !m.IsLightMode() && m.MySyncPaused && m.ShouldLeave && inTickOf != "" && len(tickMastersAtStart) != 1
		}
		frozen := func() bool {
			m := maint()
			return m != nil && !m.IsLightMode() && m.MySyncPaused && !m.ShouldLeave || leaveRefused()
		}
		lightOn := func() bool {
			m := maint()
			return m != nil && m.IsLightMode() && m.MySyncPaused && !m.ShouldLeave
		}
		// paused[host]: the instance on host has itself seen the current maintenance (it wrote its
		// marker file); an instance that was cut off from the coordination service before it ever read
		// the key cannot know about it
		pausedHost := func(host string) bool { return w.VFSHas("/vfs/" + host + "/maintenance") }
		everPaused := map[string]bool{}
		w.OnApply = append(w.OnApply, func(ap *sim.Applied) {
			if !ap.Effect || !strings.HasPrefix(ap.Call.Proc, "h") {
				return
			}
			if frozen() {
				if ap.Call.Kind == "sql" && ap.Changed {
					who := "/by-an-instance-that-had-paused"
					if p := w.Procs[ap.Call.Proc]; p != nil && !pausedHost(p.Host) {
						who = "/by-an-instance-that-never-saw-the-key"
						if everPaused[p.Host] {
							// it had paused, saw the leave request and - not holding the lock - un-paused at once,
							// whether or not the lock holder's leave succeeds
							who = "/by-an-instance-that-un-paused-on-the-leave-request"
						}
					}
					if leaveRefused() {
						who += "/while-a-leave-cannot-succeed"
					}
					violate("1-full-maintenance-freezes-mysql"+who, fmt.Sprintf("%s changed %s with %q while full maintenance is acknowledged", ap.Call.Proc, ap.Call.Target, ap.Call.SQL))
				}
				if ap.Call.Kind == "sql" && ap.Call.Mut && !ap.Changed {
					r.Count("idempotent_statements_while_frozen")
				}
				if ap.Call.Kind == "zk" && ap.Call.Mut && (ap.Call.Target == vns+"/master" || ap.Call.Target == vns+"/active_nodes") {
					violate("1-full-maintenance-freezes-master-and-list", fmt.Sprintf("%s wrote %s while full maintenance is acknowledged", ap.Call.Proc, ap.Call.ZKReq))
				}
			}
			if lightOn() {
				if ap.Call.Kind == "zk" && ap.Call.Op == "create" && ap.Call.Target == vns+"/switch" {
					var s Switchover
					if json.Unmarshal(ap.Call.ZKReq.Data, &s) == nil && (s.Cause == CauseAuto || s.MasterTransition == FailoverTransition) && strings.HasPrefix(ap.Call.Proc, "h") {
						violate("2-light-maintenance-no-failover-filed", fmt.Sprintf("%s filed a failover while light maintenance is acknowledged", ap.Call.Proc))
					}
				}
				if ap.Call.Kind == "sql" && ap.Call.Op == "SET_WRITABLE" && ap.Call.Target != h.MasterKey() {
					if s := h.Switch(); s != nil && s.MasterTransition == FailoverTransition {
						violate("2-light-maintenance-no-failover-executed", fmt.Sprintf("%s promoted by a failover-type request while light maintenance is acknowledged", ap.Call.Target))
					} else {
						r.Count("planned_switchover_under_light_maintenance")
					}
				}
				if ap.Call.Kind == "sql" && ap.Changed {
					r.Count("changes_under_light_maintenance")
				}
			}
			if ap.Call.Kind == "zk" && ap.Call.Op == "delete" && ap.Call.Target == vns+"/maintenance" {
				r.Count("left_by_mysync")
				if len(tickMastersAtStart) != 1 {
					violate("3-leave-only-with-exactly-one-master", fmt.Sprintf("%s removed the maintenance key in an iteration at whose start the alive masters were %v", ap.Call.Proc, tickMastersAtStart))
				} else {
					if mk := h.MasterKey(); mk != tickMastersAtStart[0] {
						violate("3-leave-records-the-real-master", fmt.Sprintf("maintenance left with recorded master %q, the only alive master is %s", mk, tickMastersAtStart[0]))
					}
					if len(h.ActiveNodes()) == 0 {
						violate("3-leave-rebuilds-active-list", "maintenance left with an empty active list")
					}
				}
			}
			_ = inTickOf
		})
		tick := func(a *App, host string) {
			p := w.Procs[h.ID(a)]
			if p == nil || p.Crashed {
				return
			}
			tickMastersAtStart = nil
			for _, x := range spec.AllHosts() {
				if s := w.Servers[x]; s.Up && !s.HasSource {
					tickMastersAtStart = append(tickMastersAtStart, x)
				}
			}
			m := maint()
			leaving := m == nil || m.ShouldLeave
			wasMaint := a.state == stateMaintenance
			emergeBefore := w.VFSHas("/vfs/" + host + "/emerge")
			zkWasDown := w.ZK.Down // the instance cannot attempt to leave without the coordination service
			inTickOf = host
			if pausedHost(host) {
				everPaused[host] = true
			}
			h.Tick(a)
			inTickOf = ""
			if pausedHost(host) {
				everPaused[host] = true
			}
			// light maintenance pauses no instance: nobody sits in the maintenance state (and out of the
			// manager election) while the key says light mode before and after its iteration
			if after := maint(); a.state == stateMaintenance && m != nil && m.IsLightMode() && !m.ShouldLeave && after != nil && after.IsLightMode() && !after.ShouldLeave && !w.ZK.Down && !zkWasDown {
				how := "/entered-under-a-light-key"
				if wasMaint {
					how = "/still-paused-by-an-earlier-full-maintenance"
				}
				violate("2-light-maintenance-pauses-no-instance"+how, fmt.Sprintf("%s is in the maintenance state (not contending for the manager lock, repairing nothing) under light maintenance", host))
			}
			if wasMaint && leaving && a.dcs.IsConnected() && !w.ZK.Down && !zkWasDown && len(tickMastersAtStart) > 1 && !emergeBefore && a.state == stateMaintenance {
				// a leave attempt by the lock holder with several masters must raise the emergency marker
				if dcsLockOwner(h) == h.ID(a) && !w.VFSHas("/vfs/"+host+"/emerge") {
					violate("3-several-masters-raise-emergency-marker", fmt.Sprintf("leave attempted by %s with masters %v, no emergency marker", host, tickMastersAtStart))
				}
			}
		}
		for step, ev := range c.Hist {
			np := len(w.Panics)
			switch ev {
			case "mgrTick":
				h.InjectHealth()
				tick(mgr, "h1")
			case "candTick":
				h.InjectHealth()
				tick(cand, "h2")
			case "onFull", "onLight":
				mode := FullMode
				if ev == "onLight" {
					mode = LightMode
				}
				h.RunCLI("h3", func(a *App) int { return a.CliEnableMaintenance(0, "test", mode) })
			case "off":
				h.RunCLI("h3", func(a *App) int { return a.CliDisableMaintenance(0) })
			case "delKey":
				w.ZK.Del(vns + "/maintenance")
			case "restartMgr":
				mgr = h.Replace("h1")
			case "zkDown":
				w.ZK.Down = true
				w.ZK.SyncLinks()
				w.Settle() // session events are delivered and handled before anything else moves (A3)
			case "zkUp":
				w.ZK.Down = false
				w.ZK.SyncLinks()
				w.Settle()
			case "promoteH2":
				// operator moves the master by hand (operator edits happen while paused: that is what maintenance is for)
				s1, s2, s3 := w.Servers["h1"], w.Servers["h2"], w.Servers["h3"]
				if s1.Up && s2.Up && frozen() {
					dyn()
					s1.ReadOnly, s1.SuperRO = true, true
					s2.IORunning, s2.SQLRunning, s2.HasSource, s2.Source = false, false, false, ""
					s2.ReadOnly, s2.SuperRO = false, false
					s1.MakeReplica("h2")
					if s3.Up {
						s3.MakeReplica("h2")
					}
				}
			case "twoMasters":
				s2 := w.Servers["h2"]
				if s2.Up && frozen() {
					s2.IORunning, s2.SQLRunning, s2.HasSource, s2.Source = false, false, false, ""
					s2.ReadOnly, s2.SuperRO = false, false
				}
			case "operatorSemiSyncOn":
				// the operator switches the master's semi-sync back on by hand while mysync is paused
				if m := maint(); m != nil && !m.IsLightMode() && m.MySyncPaused && w.Servers["h1"].Up {
					w.Servers["h1"].SSMaster = true
				}
			case "detachC1":
				// the operator detaches the cascade replica (STOP REPLICA; RESET REPLICA ALL): a second alive master
				if c1 := w.Servers["c1"]; c1 != nil && c1.Up && frozen() {
					c1.IORunning, c1.SQLRunning, c1.HasSource, c1.Source = false, false, false, ""
				}
			case "stopReplH3":
				if frozen() {
					w.Servers["h3"].IORunning, w.Servers["h3"].SQLRunning = false, false
				}
			case "writableH3":
				if frozen() {
					w.Servers["h3"].ReadOnly, w.Servers["h3"].SuperRO = false, false
				}
			case "fileTo2", "fileForced", "fileStartedForced":
				w.Advance(time.Second)
				if !w.ZK.Exists(vns + "/switch") {
					s := Switchover{To: "h2", Cause: CauseWorker, InitiatedBy: "worker", InitiatedAt: time.Now(), MasterTransition: SwitchoverTransition}
					if ev == "fileForced" {
						s = Switchover{From: h.MasterKey(), Cause: CauseManual, InitiatedBy: "op", InitiatedAt: time.Now(), MasterTransition: FailoverTransition}
					}
					if ev == "fileStartedForced" {
						// an operator-forced failover that a manager started once; the attempt failed and the request
						// was kept for a retry (run_count 1), or the manager died after starting it
						now := time.Now()
						s = Switchover{From: h.MasterKey(), Cause: CauseManual, InitiatedBy: "op", InitiatedAt: now, MasterTransition: FailoverTransition,
							StartedBy: "h1", StartedAt: now, RunCount: 1, Result: &SwitchoverResult{Ok: false, Error: "previous attempt failed", FinishedAt: now}}
					}
					if s.To != h.MasterKey() {
						w.ZK.Put(vns+"/switch", jsonStr(s))
					}
				}
			case "h1Dies":
				w.Servers["h1"].Crash(w)
			case "adv5":
				w.Advance(5 * time.Second)
				dyn()
			}
			if len(w.Panics) > np || len(w.Unknown) > 0 {
				violate("0-engine", fmt.Sprintf("panics=%v at %s unknown=%v at step %d (%s)", w.Panics, h.PanicWhere(), w.Unknown, step, ev))
				return
			}
		}
		w.Settle()
		canon = h.Canon()
		st := "none"
		if m := maint(); m != nil {
			st = fmt.Sprintf("%s paused=%v leave=%v", m.Mode, m.MySyncPaused, m.ShouldLeave)
		}
		r.Outcome(fmt.Sprintf("maint=%s mgr=%s cand=%s", st, mgr.state, cand.state))
		if r.Replay != nil {
			for _, l := range w.StmtLog {
				if !strings.Contains(l, "(no effect)") {
					r.Logf("%s", l)
				}
			}
			for _, st := range w.PanicStacks {
				r.Logf("%s", st)
			}
		}
	})
	return canon
}

// dcsLockOwner returns the process owning the manager lock znode ("" if none).
func dcsLockOwner(h *H) string {
	z := h.W.ZK
	id := z.Owner(vns + "/manager")
	if id == 0 {
		return ""
	}
	for _, cl := range z.Clients {
		if cl.Session == id {
			return cl.Proc
		}
	}
	return ""
}

func checkC09(r *vt.Run) {
	var rc c09Case
	if r.ReplayInto(&rc) {
		c09Run(r, rc)
		return
	}
	depth := 4
	if r.Thorough() {
		depth = 6
	}
	r.Bound("depth", depth)
	enabled := func(hist []string, ev string) bool {
		n := 0
		for _, x := range hist {
			if x == ev {
				n++
			}
		}
		switch ev {
		case "mgrTick", "candTick", "adv5":
			return true
		case "onFull", "onLight", "off", "zkDown", "zkUp", "restartMgr":
			return n < 2
		}
		return n < 1
	}
	for _, dss := range []bool{true, false} {
		dss := dss
		runner := func(hist []string) string {
			c := c09Case{DisableSS: dss, Hist: hist}
			r.Crumb(c)
			if len(hist) >= 3 && len(hist) <= 4 && hist[0] == "onFull" && hist[1] == "mgrTick" && hist[2] == "promoteH2" {
				r.Sample(c)
			}
			return fmt.Sprint(dss) + "|" + c09Run(r, c)
		}
		d1, d2, d3 := depth, depth, depth-1
		if r.Quick() && !dss {
			d1, d2, d3 = depth-1, depth-1, depth-2
		}
		if only := os.Getenv("VERIF_C09_ONLY"); only != "" {
			if only != fmt.Sprintf("paused%v", dss) {
				continue
			}
			d1, d3 = 0, 0
		}
		vBFS(r, fmt.Sprintf("full%v|", dss), c09Alphabet, d1, enabled, runner)
		// from the acknowledged full-maintenance state
		prefix := []string{"onFull", "mgrTick", "candTick"}
		pausedAlpha := c09Alphabet
		vBFS(r, fmt.Sprintf("paused%v|", dss), pausedAlpha, d2, enabled, func(hist []string) string {
			return runner(append(append([]string(nil), prefix...), hist...))
		})
		// from the acknowledged light-maintenance state
		prefix2 := []string{"onLight", "mgrTick"}
		vBFS(r, fmt.Sprintf("light%v|", dss), c09Alphabet, d3, enabled, func(hist []string) string {
			return runner(append(append([]string(nil), prefix2...), hist...))
		})
	}
	// from "a leave was asked for and cannot succeed" (two alive masters): the mode is kept
	vBFS(r, "leave-refused|", c09Alphabet, depth, enabled, func(hist []string) string {
		c := c09Case{DisableSS: true, Hist: append([]string{"onFull", "mgrTick", "candTick", "twoMasters", "off", "mgrTick"}, hist...)}
		r.Crumb(c)
		return "leave-refused|" + c09Run(r, c)
	})
	// with a registered cascade replica (smaller alphabet): what counts as "exactly one alive master"
	cascAlpha := []string{"mgrTick", "candTick", "off", "detachC1", "twoMasters", "delKey", "adv5"}
	dc := 4
	if r.Thorough() {
		dc = 6
	}
	vBFS(r, "cascade|", cascAlpha, dc, enabled, func(hist []string) string {
		c := c09Case{DisableSS: true, Hist: append([]string{"onFull", "mgrTick", "candTick"}, hist...), Cascade: true}
		r.Crumb(c)
		return "cascade|" + c09Run(r, c)
	})
	r.Bound("initial_states", "converged; full maintenance acknowledged by manager and candidate; light maintenance acknowledged; acknowledged full maintenance with a leave that cannot succeed; acknowledged full maintenance with a cascade replica")
}
