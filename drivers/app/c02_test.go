//go:build verif

package app

// C02 Single-fault tolerance: no acknowledged loss, one writable master. The whole daemon runs
// (real Run() of one mysync per host, real tickers and background loops on virtual time) over a
// converged semi-sync cluster with a client workload; ONE fault of every kind is injected at
// enumerated call boundaries of the tick / health-check cycle, lasts for an enumerated duration,
// is healed, and the cluster must return to the canonical state; meanwhile no second node may
// acknowledge client writes.

import (
	"fmt"
	"sort"
	"strings"
	"time"

	"github.com/yandex/mysync/internal/verif/sim"
	"github.com/yandex/mysync/internal/verif/vt"
)

func init() { verifChecks["C02"] = checkC02 }

type c02Case struct {
	N           int    `json:"ha_nodes"`
	Cascade     bool   `json:"cascade"`
	W           int    `json:"configured_count"`
	Failover    bool   `json:"failover"`
	MasterFirst bool   `json:"master_first_adjust_ss_order"`
	Fault       string `json:"fault"`
	Target      string `json:"target"`
	At          int    `json:"inject_at_call"` // number of granted calls after convergence
	DurationS   int    `json:"duration_s"`
	// SlowApply: the replicas' SQL threads apply what they received only every 8th second (instead of
	// every 2nd): catching up with the most recent node takes several polls of waitForCatchUp
	SlowApply bool `json:"slow_sql_threads,omitempty"`
}

const (
	c02Converge = 30 * time.Second
	c02Settle   = 160 * time.Second
)

func c02Spec(c c02Case) Spec {
	var ha []string
	for i := 1; i <= c.N; i++ {
		ha = append(ha, fmt.Sprintf("h%d", i))
	}
	spec := Spec{HA: ha, Conf: map[string]string{"failover": fmt.Sprint(c.Failover), "failover_delay": "0s", "failover_cooldown": "1s",
		"rpl_semi_sync_master_wait_for_slave_count": fmt.Sprint(c.W), "master_first_adjust_ss_order": fmt.Sprint(c.MasterFirst),
		"slave_catch_up_timeout": "20s", "wait_start_replication_timeout": "3s", "replication_convergence_timeout_switchover": "10s",
		"inactivation_delay": "15s", "db_set_ro_force_timeout": "10s", "db_set_ro_timeout": "10s"},
		ZKConf: map[string]string{"lock_held_ttl": "0s"}}
	if c.Cascade {
		spec.Cascade = map[string]string{"c1": "h2"}
	}
	return spec
}

// c02Run executes one case. With countOnly it runs fault-free and returns the number of calls
// granted in the two-tick window after convergence.
func c02Run(r *vt.Run, c c02Case, countOnly bool) (window int) {
	return c02RunFor(r, "C02", c, countOnly)
}

// c02RunFor runs the daemon scenario and reports under property prop: "C02" reports the
// single-fault clauses, "C03" only clause 7 (only the lock holder acts; part B of C03).
func c02RunFor(r *vt.Run, prop string, c c02Case, countOnly bool) (window int) {
	r.Eval()
	spec := c02Spec(c)
	violate := func(clause, detail string) {
		if prop == "C03" {
			if !strings.HasPrefix(clause, "7-") && !strings.HasPrefix(clause, "0-") {
				return
			}
			what := "engine"
			if i := strings.Index(detail, "|"); i > 0 {
				what, detail = strings.SplitN(detail[:i], " ", 2)[0], detail[i+1:] // "statement" | "write"
			}
			r.Violate("C03/4-only-the-lock-holder-acts/"+c.Fault+"/"+what, detail+fmt.Sprintf("; case %+v", c), c)
			return
		}
		if strings.HasPrefix(clause, "7-") {
			r.Count("cluster_wide_actions_without_the_lock(reported_by_C03)")
			return
		}
		r.Violate("C02/"+clause+"/"+c.Fault, detail+fmt.Sprintf("; case %+v", c), c)
	}
	Bubble(r.T, spec, func(h *H) {
		h.BuildConverged()
		w := h.W
		w.LogStmts = r.Replay != nil
		w.ZKAutoExpire = true
		var promos []promo
		h.promoMonitor(&promos)
		var holderProblems []string
		h.holderMonitor(func(s string) {
			if len(holderProblems) < 3 {
				holderProblems = append(holderProblems, s)
			}
		})
		h.daemonDynamics(true)
		if c.SlowApply {
			h.applyEvery = 8
		}
		for _, x := range spec.AllHosts() {
			h.Spawn(x)
		}
		w.Advance(c02Converge)
		if ps := c07Final(h, spec, c07World{}); len(ps) > 0 {
			violate("0-setup-converged", fmt.Sprintf("the cluster did not converge before the fault: %v", ps))
			return
		}
		calls := 0
		pendingLoss := -1
		lossHost := ""
		injected := false
		var injectedAt time.Duration
		inject := func() {
			injected, injectedAt = true, w.Now()
			s := w.Servers[c.Target]
			switch c.Fault {
			case "mysql-crash":
				s.Crash(w)
			case "mysql-hang":
				s.Hung = true
			case "isolate":
				for _, x := range append(spec.AllHosts(), "zk", "client") {
					if x != c.Target {
						w.SetCut(c.Target, x, true)
					}
				}
				w.ZK.SyncLinks()
			case "mysync-crash":
				h.Kill(c.Target)
			case "zk-loss":
				w.SetCut(c.Target, "zk", true)
				w.ZK.SyncLinks()
			case "zk-down-all":
				w.ZK.Down = true
				w.ZK.SyncLinks()
			case "switch-to":
				if h.MasterKey() != c.Target && !w.ZK.Exists(vns+"/switch") {
					w.ZK.Put(vns+"/switch", jsonStr(Switchover{To: c.Target, Cause: CauseWorker, InitiatedBy: "worker", InitiatedAt: time.Now(), MasterTransition: SwitchoverTransition}))
				}
			case "switch-from":
				if !w.ZK.Exists(vns + "/switch") {
					w.ZK.Put(vns+"/switch", jsonStr(Switchover{From: h.MasterKey(), Cause: CauseWorker, InitiatedBy: "worker", InitiatedAt: time.Now(), MasterTransition: SwitchoverTransition}))
				}
			case "switch-then-manager-loses-zk":
				// part B of C03: the manager is deposed in the middle of a switchover
				if !w.ZK.Exists(vns + "/switch") {
					w.ZK.Put(vns+"/switch", jsonStr(Switchover{From: h.MasterKey(), Cause: CauseWorker, InitiatedBy: "worker", InitiatedAt: time.Now(), MasterTransition: SwitchoverTransition}))
				}
				pendingLoss = c.DurationS // lose ZooKeeper that many granted calls after the manager starts the switchover
			}
		}
		heal := func() {
			s := w.Servers[c.Target]
			switch c.Fault {
			case "mysql-crash":
				s.Start(w)
			case "mysql-hang":
				s.Hung = false
			case "isolate":
				for _, x := range append(spec.AllHosts(), "zk", "client") {
					w.SetCut(c.Target, x, false)
				}
				w.ZK.SyncLinks()
			case "mysync-crash":
				h.Spawn(c.Target)
			case "zk-loss":
				w.SetCut(c.Target, "zk", false)
				w.ZK.SyncLinks()
			case "zk-down-all":
				w.ZK.Down = false
				w.ZK.SyncLinks()
			case "switch-then-manager-loses-zk":
				if lossHost != "" {
					w.SetCut(lossHost, "zk", false)
					w.ZK.SyncLinks()
				}
			}
		}
		w.Chooser = func(pend []*sim.Call) int {
			calls++
			if !countOnly && !injected && calls > c.At {
				inject()
				return -1
			}
			if pendingLoss >= 0 {
				if sw := h.Switch(); sw != nil && sw.StartedBy != "" {
					if pendingLoss == 0 {
						lossHost = sw.StartedBy
						w.SetCut(lossHost, "zk", true)
						w.ZK.SyncLinks()
						pendingLoss = -1
						return -1
					}
					pendingLoss--
				}
			}
			return 0
		}
		if countOnly {
			w.Advance(10 * time.Second)
			window = calls
			return
		}
		for i := 0; i < 40 && !injected; i++ {
			w.Advance(time.Second)
		}
		if !injected {
			violate("0-setup-injected", "the injection point was never reached")
			return
		}
		if c.Fault == "switch-then-manager-loses-zk" {
			w.Advance(30 * time.Second)
		} else {
			w.Advance(time.Duration(c.DurationS) * time.Second)
		}
		if c.Fault == "mysync-crash" {
			// the killed process has unwound by now
			for i := 0; i < 10 && !h.daemons[c.Target].done; i++ {
				w.Advance(time.Second)
			}
		}
		heal()
		w.Advance(c02Settle - 10*time.Second)
		early := c07Final(h, spec, c07World{})
		w.Advance(10 * time.Second)
		w.Chooser = nil
		late := c07Final(h, spec, c07World{})
		if len(w.Panics) > 0 || len(w.Unknown) > 0 {
			violate("0-engine", fmt.Sprintf("panics=%v unknown=%v", w.Panics, w.Unknown))
			return
		}
		for _, d := range h.allDaemons {
			if d.done && !w.Procs[d.id].Crashed {
				violate("5-daemon-keeps-running", fmt.Sprintf("mysync %s exited with code %d", d.id, d.rc))
			}
		}
		for _, p := range late {
			clause := p[:strings.Index(p, ":")]
			violate(clause, p[strings.Index(p, ":")+2:]+fmt.Sprintf(" (%v after healing; injected at %v)", c02Settle, injectedAt))
		}
		if len(late) == 0 && len(early) > 0 {
			r.Count("settled_only_in_last_10s")
		}
		for _, v := range ackViolations(w, promos) {
			violate("6-no-second-node-acknowledges", v)
			break
		}
		for _, v := range holderProblems {
			violate("7-only-the-lock-holder-acts", v)
			break
		}
		acked := 0
		for _, t := range w.Ledger {
			if t.Status == sim.TxnAcked {
				acked++
			}
		}
		wr := h.Writable()
		sort.Strings(wr)
		r.Outcome(fmt.Sprintf("master=%s promotions=%d", h.MasterKey(), min(len(promos), 3)))
		r.Add("acked_commits", acked)
		r.Nontrivial(fmt.Sprintf("%+v", c))
		if r.Replay != nil {
			for _, l := range w.StmtLog {
				if !strings.Contains(l, "(no effect)") && !strings.Contains(l, "/health/") && !strings.Contains(l, "resetup_status") {
					r.Logf("%s", l)
				}
			}
			r.Logf("%s", h.Canon())
		}
	})
	return
}

func checkC02(r *vt.Run) {
	var rc c02Case
	if r.ReplayInto(&rc) {
		c02Run(r, rc, false)
		return
	}
	type cfg struct {
		n           int
		cascade     bool
		w           int
		failover    bool
		masterFirst bool
		stride      int
	}
	cfgs := []cfg{{3, false, 1, true, true, 6}}
	if r.Thorough() {
		cfgs = []cfg{{3, false, 1, true, true, 2}, {3, false, 1, true, false, 8}, {2, false, 1, true, true, 8}, {4, false, 2, true, true, 8},
			{3, true, 1, true, true, 8}, {3, false, 1, false, true, 16}, {4, true, 2, true, false, 16}}
	}
	faults := []string{"mysql-crash", "mysql-hang", "isolate", "mysync-crash", "zk-loss", "zk-down-all", "switch-to", "switch-from"}
	durs := []int{3, 12, 40}
	var cs []string
	for _, c := range cfgs {
		cs = append(cs, fmt.Sprintf("n=%d cascade=%v w=%d failover=%v masterFirst=%v every %d-th call boundary", c.n, c.cascade, c.w, c.failover, c.masterFirst, c.stride))
	}
	r.Bound("configurations", cs)
	r.Bound("durations_s", durs)
	idx := 0
	for _, cf := range cfgs {
		base := c02Case{N: cf.n, Cascade: cf.cascade, W: cf.w, Failover: cf.failover, MasterFirst: cf.masterFirst}
		window := c02Run(r, base, true)
		r.R.Evaluations--
		r.Bound(fmt.Sprintf("calls_in_two_tick_window_n%d", cf.n), window)
		for _, f := range faults {
			var targets []string
			switch f {
			case "zk-down-all", "switch-from":
				targets = []string{"h1"}
			case "switch-to":
				targets = []string{"h2"}
			default:
				for i := 1; i <= cf.n; i++ {
					targets = append(targets, fmt.Sprintf("h%d", i))
				}
			}
			for _, tg := range targets {
				for at := 0; at < window; at += cf.stride {
					for _, d := range durs {
						if strings.HasPrefix(f, "switch") && d != durs[0] {
							continue
						}
						idx++
						if !r.Mine(idx) {
							continue
						}
						if r.Expired() {
							return
						}
						c := base
						c.Fault, c.Target, c.At, c.DurationS = f, tg, at, d
						if idx%401 == 7 {
							r.Sample(c)
						}
						r.Crumb(c)
						c02Run(r, c, false)
					}
				}
			}
		}
	}
}

// checkC03B: part B of C03 in daemon mode - every cluster-wide action must come from the process
// that owns the lock znode at that instant; scenarios: the manager host is isolated / loses
// ZooKeeper for about one session timeout at enumerated call boundaries, and the manager loses
// ZooKeeper k granted calls after it started a switchover (k enumerated).
func checkC03B(r *vt.Run) {
	var rc c02Case
	if r.ReplayInto(&rc) {
		var cc c03cCase
		if r.ReplayInto(&cc) && cc.Part == "C" {
			c03cRun(r, cc)
		} else if rc.N > 0 {
			c02RunFor(r, "C03", rc, false)
		}
		return
	}
	defer checkC03C(r)
	base := c02Case{N: 3, W: 1, Failover: true, MasterFirst: true}
	window := c02RunFor(r, "C03", base, true)
	r.R.Evaluations--
	stride := 8
	maxK := 130
	kStride := 1 // every call: the window between two lock re-checks can be a single call wide
	if r.Thorough() {
		stride, maxK, kStride = 2, 260, 1
	}
	r.Bound("part_b_call_boundary_stride", stride)
	r.Bound("part_b_switchover_loss_points", fmt.Sprintf("every %d-th of the first %d calls after StartSwitchover", kStride, maxK))
	idx := 0
	for _, f := range []string{"isolate", "zk-loss"} {
		for at := 0; at < window; at += stride {
			for _, d := range []int{3, 4, 6} {
				idx++
				if !r.Mine(idx) {
					continue
				}
				c := base
				c.Fault, c.Target, c.At, c.DurationS = f, "h1", at, d
				r.Crumb(c)
				c02RunFor(r, "C03", c, false)
			}
		}
	}
	for k := 0; k < maxK; k += kStride {
		idx++
		if !r.Mine(idx) {
			continue
		}
		if r.Expired() {
			return
		}
		c := base
		c.Fault, c.Target, c.At, c.DurationS = "switch-then-manager-loses-zk", "h1", 3, k
		r.Crumb(c)
		if k == 40 {
			r.Sample(c)
		}
		c02RunFor(r, "C03", c, false)
		// the same with slow SQL threads: the lock can change hands while the catch-up is being awaited
		c.SlowApply = true
		r.Crumb(c)
		c02RunFor(r, "C03", c, false)
	}
}

func init() { verifChecks["C03"] = checkC03B }
