//go:build verif

package app

// C20 Daemon robustness (crash and leak clauses). Systematically generated coordination trees
// and server states - dangling references (recorded master / stream_from / list members /
// registry entries that are not registered hosts), missing or malformed keys, hosts added or
// removed, servers down / hanging / in a replication cycle - and on each: every state handler
// and background-loop body of two instances, five times over. A panic recovered around a step is
// a violation; a panic in a goroutine no recover can catch kills the worker, is attributed to the
// case by the orchestrator and the shard resumes after it. Goroutines and open handles after
// iteration 5 must equal those after iteration 2.

import (
	"fmt"
	"runtime"
	"strings"
	"time"

	"github.com/yandex/mysync/internal/verif/vt"
)

type c20Case struct {
	Tree    []string `json:"tree_mutations"`
	Servers string   `json:"servers"`
	MgrSw   bool     `json:"manager_switchover"`
	// Conf: a legal but non-default configuration (empty: the defaults of the harness)
	Conf string `json:"config_variant,omitempty"`
}

// legal extremes of the configuration: zero lag bounds with replicas that do lag, semi-sync off,
// a required semi-sync count of zero
var c20Confs = []string{"zero-lag-bounds", "semi-sync-off", "zero-wait-count"}

var c20TreeMutations = []string{
	"master=gone", "master=empty", "master:absent", "master:malformed", "master=h2",
	"ha:-h3", "ha:+ghost", "ha:empty", "ha:+h1-only",
	"cascade:c1->h2", "cascade:c1->gone", "cascade:c1->c1", "cascade:c1->empty", "cascade:c1->malformed",
	"active:+gone", "active:malformed", "active:absent", "active:empty",
	"health:none", "health:-h1", "health:malformed-h1",
	"recovery:gone", "recovery:h2", "recovery:h1",
	"switch:to-gone", "switch:from-gone", "switch:malformed", "switch:to-h2", "switch:empty-object",
	"maintenance:malformed", "maintenance:full", "optimization:gone", "last_switch:malformed", "resetup:malformed-h2", "last_shutdown:malformed",
}

var c20ServerStates = []string{"all-up", "master-down", "h2-down", "h2-hung", "cycle", "all-down", "h2-no-plugin", "h2-old-version",
	"started-during-outage", "started-during-outage-with-maintenance-file"}

func c20Run(r *vt.Run, c c20Case) {
	r.Eval()
	spec := Spec{HA: []string{"h1", "h2", "h3"}, Conf: map[string]string{"failover": "true", "manager_switchover": fmt.Sprint(c.MgrSw),
		"slave_catch_up_timeout": "4s", "wait_start_replication_timeout": "2s", "replication_convergence_timeout_switchover": "4s",
		"switchover_max_attempts": "2", "db_set_ro_force_timeout": "5s", "db_set_ro_timeout": "5s"}}
	switch c.Conf {
	case "zero-lag-bounds":
		spec.Conf["priority_choice_max_lag"] = "0s"
		spec.OptConf = map[string]string{"high_replication_mark": "0s", "low_replication_mark": "0s"}
	case "semi-sync-off":
		spec.Conf["semi_sync"] = "false"
	case "zero-wait-count":
		spec.Conf["rpl_semi_sync_master_wait_for_slave_count"] = "0"
	}
	hasCascade := false
	for _, m := range c.Tree {
		if strings.HasPrefix(m, "cascade:") {
			hasCascade = true
		}
	}
	if hasCascade {
		spec.Cascade = map[string]string{"c1": "h2"}
	}
	violate := func(clause, detail string) {
		r.Violate("C20/"+clause, detail+fmt.Sprintf("; case %+v", c), c)
	}
	Bubble(r.T, spec, func(h *H) {
		c20Prepare(h, c)
		w := h.W
		if c.Conf == "zero-lag-bounds" {
			l2, l3 := 5.0, 7.0
			w.Servers["h2"].Lag, w.Servers["h3"].Lag = &l2, &l3
			h.InjectHealth()
		}
		w.LogStmts = r.Replay != nil
		outage := strings.HasPrefix(c.Servers, "started-during-outage")
		if outage {
			// both instances are (re)started while the coordination service cannot be reached; it comes
			// back after their first iteration
			if strings.HasSuffix(c.Servers, "maintenance-file") {
				w.VFSPut("/vfs/h1/maintenance", nil)
				w.VFSPut("/vfs/h2/maintenance", nil)
			}
			w.ZK.Down = true
			w.ZK.SyncLinks()
		}
		a1 := h.Start("h1")
		a2 := h.Start("h2")
		var g2, db2 int
		for it := 1; it <= 5; it++ {
			if outage && it == 2 {
				w.ZK.Down = false
				w.ZK.SyncLinks()
				w.Settle()
			}
			for _, a := range []*App{a1, a2} {
				np := len(w.Panics)
				h.Tick(a)
				h.Health(a)
				h.Recovery(a)
				h.LagCheck(a)
				if len(w.Panics) > np {
					violate("1-no-crash/"+c20Where(h), fmt.Sprintf("iteration %d of %s: panic %v at %s", it, h.ID(a), w.Panics[np:], h.PanicWhere()))
					return
				}
				if len(w.Unknown) > 0 {
					violate("0-engine", fmt.Sprintf("unknown statements %v", w.Unknown))
					return
				}
			}
			w.Advance(5 * time.Second)
			w.Settle()
			if it == 2 || it == 5 {
				// let every call that hangs to its (up to 30 s) deadline finish: only what stays is a leak
				w.Advance(65 * time.Second)
				w.Settle()
				g := bubbleGoroutines()
				db := 0
				for _, a := range []*App{a1, a2} {
					db += w.Procs[h.ID(a)].OpenDB
				}
				if it == 2 {
					g2, db2 = g, db
				} else {
					if db > db2 {
						violate("2-no-connection-leak", fmt.Sprintf("open database handles grew from %d (after iteration 2) to %d (after iteration 5)", db2, db))
					}
					if g > g2 {
						violate("2-no-goroutine-leak", fmt.Sprintf("goroutines grew from %d (after iteration 2) to %d (after iteration 5)", g2, g))
					}
				}
			}
		}
		r.Outcome(fmt.Sprintf("mgr=%s", a1.state))
		r.Nontrivial(fmt.Sprintf("%+v", c))
		if r.Replay != nil {
			for _, st := range w.PanicStacks {
				r.Logf("%s", st)
			}
		}
	})
}

// c20Prepare builds the converged cluster and applies the case's tree mutations and server state.
func c20Prepare(h *H, c c20Case) {
	h.BuildConverged()
	w := h.W
	z := w.ZK
	for _, m := range c.Tree {
		switch m {
		case "master=gone":
			z.Put(vns+"/master", `"gone"`)
		case "master=empty":
			z.Put(vns+"/master", `""`)
		case "master:absent":
			z.Del(vns + "/master")
		case "master:malformed":
			z.Put(vns+"/master", `{{`)
		case "master=h2":
			z.Put(vns+"/master", `"h2"`)
		case "ha:-h3":
			z.Del(vns + "/ha_nodes/h3")
		case "ha:+ghost":
			z.Put(vns+"/ha_nodes/ghost", `{"priority":5}`)
		case "ha:empty":
			z.Del(vns + "/ha_nodes")
			z.Put(vns+"/ha_nodes", "")
		case "ha:+h1-only":
			z.Del(vns + "/ha_nodes/h2")
			z.Del(vns + "/ha_nodes/h3")
		case "cascade:c1->h2":
		case "cascade:c1->gone":
			z.Put(vns+"/cascade_nodes/c1", `{"stream_from":"gone"}`)
		case "cascade:c1->c1":
			z.Put(vns+"/cascade_nodes/c1", `{"stream_from":"c1"}`)
		case "cascade:c1->empty":
			z.Put(vns+"/cascade_nodes/c1", `{"stream_from":""}`)
		case "cascade:c1->malformed":
			z.Put(vns+"/cascade_nodes/c1", `[1,`)
		case "active:+gone":
			z.Put(vns+"/active_nodes", `["gone","h1","h2","h3"]`)
		case "active:malformed":
			z.Put(vns+"/active_nodes", `{"x":`)
		case "active:absent":
			z.Del(vns + "/active_nodes")
		case "active:empty":
			z.Put(vns+"/active_nodes", `[]`)
		case "recovery:gone":
			z.Put(vns+"/recovery/gone", "null")
		case "recovery:h2":
			z.Put(vns+"/recovery/h2", "null")
		case "recovery:h1":
			z.Put(vns+"/recovery/h1", "null")
		case "switch:to-gone":
			z.Put(vns+"/switch", jsonStr(Switchover{To: "gone", Cause: CauseWorker, InitiatedBy: "w", InitiatedAt: time.Now(), MasterTransition: SwitchoverTransition}))
		case "switch:from-gone":
			z.Put(vns+"/switch", jsonStr(Switchover{From: "gone", Cause: CauseWorker, InitiatedBy: "w", InitiatedAt: time.Now(), MasterTransition: SwitchoverTransition}))
		case "switch:to-h2":
			z.Put(vns+"/switch", jsonStr(Switchover{To: "h2", Cause: CauseWorker, InitiatedBy: "w", InitiatedAt: time.Now(), MasterTransition: SwitchoverTransition}))
		case "switch:malformed":
			z.Put(vns+"/switch", `{"to": 5`)
		case "switch:empty-object":
			z.Put(vns+"/switch", `{}`)
		case "maintenance:malformed":
			z.Put(vns+"/maintenance", `nope`)
		case "maintenance:full":
			z.Put(vns+"/maintenance", jsonStr(Maintenance{InitiatedBy: "op", InitiatedAt: time.Now(), Mode: FullMode}))
		case "optimization:gone":
			z.Put(vns+"/optimization_nodes/gone", `{"status":""}`)
		case "last_switch:malformed":
			z.Put(vns+"/last_switch", `[`)
		case "resetup:malformed-h2":
			z.Put(vns+"/resetup_status/h2", `"x"`)
		case "last_shutdown:malformed":
			z.Put(vns+"/last_shutdown_node_time", `"yesterday"`)
		}
	}
	s1, s2 := w.Servers["h1"], w.Servers["h2"]
	switch c.Servers {
	case "master-down":
		s1.Crash(w)
	case "h2-down":
		s2.Crash(w)
	case "h2-hung":
		s2.Hung = true
	case "cycle":
		// the recorded master is a replica of a replica (operator mistake outside maintenance)
		s1.MakeReplica("h2")
	case "all-down":
		for _, s := range w.Servers {
			s.Crash(w)
		}
	case "h2-no-plugin":
		s2.PluginLoaded = false
	case "h2-old-version":
		s2.Version = [3]int{5, 7, 44}
	}
	h.InjectHealth()
	for _, m := range c.Tree {
		switch m {
		case "health:none":
			z.Del(vns + "/health")
		case "health:-h1":
			z.Del(vns + "/health/h1")
		case "health:malformed-h1":
			z.Put(vns+"/health/h1", `{"ping_ok": "yes"`)
		}
	}
}

// bubbleGoroutines counts the goroutines that belong to a synctest bubble (the runtime marks them
// in a full stack dump), i.e. exactly the goroutines of the simulated processes and harness -
// runtime-internal and test-runner goroutines are excluded, which makes the count deterministic.
func bubbleGoroutines() int {
	buf := make([]byte, 1<<20)
	n := runtime.Stack(buf, true)
	return strings.Count(string(buf[:n]), "synctest bubble")
}

// c20Where names the repository function in which the recorded panic happened (stable under line shifts).
func c20Where(h *H) string {
	for _, st := range h.W.PanicStacks {
		lines := strings.Split(st, "\n")
		for i, l := range lines {
			if strings.Contains(l, "github.com/yandex/mysync/internal/") && !strings.Contains(l, "/internal/verif/") && i+1 < len(lines) && !strings.Contains(lines[i+1], "zz_verif") && !strings.Contains(l, "panic") {
				l = strings.TrimSpace(l)
				if j := strings.LastIndex(l, "("); j > 0 {
					l = l[:j]
				}
				return strings.TrimPrefix(l, "github.com/yandex/mysync/internal/")
			}
		}
	}
	return "unknown"
}

func checkC20(r *vt.Run) {
	var rc c20Case
	if r.ReplayInto(&rc) {
		c20Run(r, rc)
		return
	}
	idx := 0
	run := func(c c20Case) {
		idx++
		if !r.Mine(idx) {
			return
		}
		if r.Skip(c) {
			return
		}
		if r.Expired() {
			return
		}
		if idx%131 == 5 {
			r.Sample(c)
		}
		r.Crumb(c)
		c20Run(r, c)
	}
	r.Bound("tree_mutations", len(c20TreeMutations))
	r.Bound("server_states", len(c20ServerStates))
	for _, srv := range c20ServerStates {
		for _, ms := range []bool{false, true} {
			run(c20Case{Servers: srv, MgrSw: ms})
			for _, m := range c20TreeMutations {
				run(c20Case{Tree: []string{m}, Servers: srv, MgrSw: ms})
			}
		}
	}
	r.Bound("configuration_variants", len(c20Confs)+1)
	for _, cf := range c20Confs {
		for _, srv := range c20ServerStates {
			run(c20Case{Servers: srv, Conf: cf})
			for _, m := range c20TreeMutations {
				run(c20Case{Tree: []string{m}, Servers: srv, Conf: cf})
			}
		}
	}
	// pairs of tree mutations
	srvs := []string{"all-up", "master-down"}
	if r.Thorough() {
		srvs = c20ServerStates
	}
	for _, srv := range srvs {
		for i, m1 := range c20TreeMutations {
			for _, m2 := range c20TreeMutations[i+1:] {
				if strings.SplitN(m1, ":", 2)[0] == strings.SplitN(m2, ":", 2)[0] || strings.SplitN(m1, "=", 2)[0] == strings.SplitN(m2, "=", 2)[0] {
					continue
				}
				run(c20Case{Tree: []string{m1, m2}, Servers: srv})
			}
		}
	}
}
