//go:build verif

package app

// C05, cooldown clause on a LIVE history: the age of the last switch is the time since it really
// finished. A real automatic failover whose first attempt fails (the candidate's SQL thread is stuck,
// the catch-up times out) and whose retry succeeds RetryAfterMin minutes later; DieAfterMin minutes
// after the real finish the new master dies. With a cooldown of 60 minutes no automatic failover may
// be filed while DieAfterMin < 60 - whatever the record says about itself.

import (
	"encoding/json"
	"fmt"
	"strings"
	"time"

	"github.com/yandex/mysync/internal/verif/sim"
	"github.com/yandex/mysync/internal/verif/vt"
)

type c05LiveCase struct {
	Live          bool `json:"live_history"`
	RetryAfterMin int  `json:"retry_succeeds_after_min"` // 0: the first attempt succeeds
	DieAfterMin   int  `json:"new_master_dies_min_after_the_real_finish"`
}

func c05LiveRun(r *vt.Run, c c05LiveCase) {
	r.Eval()
	spec := Spec{HA: []string{"h1", "h2", "h3"}, Conf: map[string]string{"failover": "true", "failover_delay": "0s", "failover_cooldown": "3600s",
		"slave_catch_up_timeout": "4s", "wait_start_replication_timeout": "2s", "switchover_timeout": "7200s"}}
	Bubble(r.T, spec, func(h *H) {
		h.BuildConverged()
		w := h.W
		w.LogStmts = r.Replay != nil
		w.ZK.Put(vns+"/ha_nodes/h3", `{"priority":10}`)
		a := h.Start("h2")
		dyn := func() {
			for _, x := range spec.HA {
				w.Replicate(x)
				w.Apply(x)
			}
		}
		w.IdleEvery, w.OnIdle = time.Second, dyn
		h.InjectHealth()
		h.Tick(a)
		// the master takes two more transactions that reach h2's relay log only; then it dies
		m := w.Servers["h1"]
		w.Write("h1")
		w.Write("h1")
		w.Replicate("h2")
		m.Crash(w)
		var finishedReal time.Duration = -1
		filedAfter := 0
		w.OnApply = append(w.OnApply, func(ap *sim.Applied) {
			if !ap.Effect || ap.Call.Kind != "zk" {
				return
			}
			if ap.Call.Target == vns+"/last_switch" && (ap.Call.Op == "create" || ap.Call.Op == "set") {
				var s Switchover
				if json.Unmarshal(ap.Call.ZKReq.Data, &s) == nil && s.Result != nil && s.Result.Ok && finishedReal < 0 {
					finishedReal = w.Now()
				}
			}
			if ap.Call.Target == vns+"/switch" && (ap.Call.Op == "create" || ap.Call.Op == "set") && finishedReal >= 0 {
				var s Switchover
				if json.Unmarshal(ap.Call.ZKReq.Data, &s) == nil && s.Cause == CauseAuto && s.RunCount == 0 && s.StartedBy == "" {
					filedAfter++
					if age := w.Now() - finishedReal; age < time.Hour {
						r.Violate("C05/6-cooldown/live-history", fmt.Sprintf("automatic failover filed %v after the previous automatic failover really finished (cooldown 1 h); case %+v", age.Truncate(time.Second), c), c)
					}
				}
			}
		})
		tick := func() bool {
			h.InjectHealth()
			np := len(w.Panics)
			h.Tick(a)
			if len(w.Panics) > np || len(w.Unknown) > 0 {
				r.Violate("C05/0-engine", fmt.Sprintf("panics=%v at %s unknown=%v; case %+v", w.Panics, h.PanicWhere(), w.Unknown, c), c)
				return false
			}
			return true
		}
		if c.RetryAfterMin > 0 {
			// h2 holds the tail in its relay log and cannot apply it: whoever is chosen cannot catch up
			w.Servers["h2"].StuckSQL = true
			w.Servers["h3"].StuckSQL = true
		}
		for i := 0; i < 3 && finishedReal < 0; i++ { // file, start, (fail)
			if !tick() {
				return
			}
			w.Advance(5 * time.Second)
		}
		if c.RetryAfterMin > 0 {
			if finishedReal >= 0 {
				r.Count("live_first_attempt_did_not_fail")
			}
			w.Advance(time.Duration(c.RetryAfterMin) * time.Minute)
			w.Servers["h2"].StuckSQL = false
			w.Servers["h3"].StuckSQL = false
			dyn()
			for i := 0; i < 4 && finishedReal < 0; i++ {
				if !tick() {
					return
				}
				w.Advance(5 * time.Second)
			}
		}
		if finishedReal < 0 {
			r.Count("live_failover_never_finished")
			r.Outcome("live: failover never finished")
			return
		}
		newMaster := h.MasterKey()
		for i := 0; i < 2; i++ {
			if !tick() {
				return
			}
			w.Advance(5 * time.Second)
		}
		w.Advance(time.Duration(c.DieAfterMin)*time.Minute - (w.Now() - finishedReal))
		if s := w.Servers[newMaster]; s != nil && newMaster != "h2" {
			s.Crash(w)
		} else {
			r.Count("live_manager_host_became_master")
		}
		for i := 0; i < 3; i++ {
			if !tick() {
				return
			}
			w.Advance(5 * time.Second)
		}
		r.Outcome(fmt.Sprintf("live: retried=%v filed-after=%d", c.RetryAfterMin > 0, min(filedAfter, 1)))
		r.Nontrivial(fmt.Sprintf("%+v", c))
		if r.Replay != nil {
			for _, l := range w.StmtLog {
				if !strings.Contains(l, "(no effect)") {
					r.Logf("%s", l)
				}
			}
		}
	})
}

func checkC05Live(r *vt.Run) {
	n := 0
	for _, retry := range []int{0, 5, 25, 50} {
		for _, die := range []int{1, 11, 36, 56, 61, 90} {
			n++
			if !r.Mine(n) {
				continue
			}
			c := c05LiveCase{true, retry, die}
			r.Crumb(c)
			c05LiveRun(r, c)
		}
	}
	r.Bound("live_histories", n)
}
