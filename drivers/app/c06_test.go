//go:build verif

package app

// C06 Every switch request reaches exactly one terminal outcome, in bounded time.
// Breadth-first search over event histories (file a request by the real CLI, by an external
// worker, automatically; manager iterations; MySQL-side conditions that make attempts fail;
// operator abort; time advances past the timeout; manager hand-over; light maintenance), each
// history replayed on a fresh world with the real code; visited states by canonical hash.

import (
	"encoding/json"
	"fmt"
	"sort"
	"strings"
	"time"

	"github.com/yandex/mysync/internal/verif/sim"
	"github.com/yandex/mysync/internal/verif/vt"
)

func init() { verifChecks["C06"] = checkC06 }

type c06Cfg struct {
	MaxAttempts int `json:"switchover_max_attempts"`
	TimeoutS    int `json:"switchover_timeout_s"`
	// NoSemiSync: semi_sync: false - a planned request is approved with one alive replica, so it can be
	// approved while another HA host is unreachable or dubious
	NoSemiSync bool `json:"semi_sync_off,omitempty"`
}

type c06Case struct {
	Cfg  c06Cfg   `json:"config"`
	Hist []string `json:"history"`
	// OperatorFilesAt >= 0: during the LAST event of the history (a manager iteration) another
	// initiator files a planned request, create-if-absent like the CLI does, just before the
	// iteration's call number OperatorFilesAt
	OperatorFilesAt *int `json:"operator_files_before_call,omitempty"`
}

var c06Alphabet = []string{"tick", "adv5", "advT", "fileTo3", "fileFrom1", "fileForced", "workerTo3", "workerNoTransition", "abort",
	"stuckOn", "stuckOff", "failChangeOn", "failChangeOff", "handover", "h2dies", "masterDies", "lightOn", "lightOff", "dubiousOn", "dubiousOff"}

type c06Req struct {
	id        string
	planned   bool
	filedAt   time.Duration
	ticks     int // manager iterations outside maintenance/parking since filing
	terminals []string
	runCount  int
}

// c06Run replays a history; returns the canonical final state.
func c06Run(r *vt.Run, c c06Case, report bool) (canon string) {
	r.Eval()
	spec := Spec{HA: []string{"h1", "h2", "h3"}, Conf: map[string]string{"failover": "true", "failover_cooldown": "1s", "slave_catch_up_timeout": "8s",
		"switchover_max_attempts": fmt.Sprint(c.Cfg.MaxAttempts), "switchover_timeout": fmt.Sprintf("%ds", c.Cfg.TimeoutS),
		"wait_start_replication_timeout": "2s", "replication_convergence_timeout_switchover": "6s"}}
	if c.Cfg.NoSemiSync {
		spec.Conf["semi_sync"] = "false"
	}
	violate := func(clause, detail string) {
		if report {
			r.Violate("C06/"+clause, detail+fmt.Sprintf("; config %+v history %v", c.Cfg, c.Hist), c)
		}
	}
	Bubble(r.T, spec, func(h *H) {
		h.BuildConverged()
		w := h.W
		w.LogStmts = r.Replay != nil
		stuck := false
		w.IdleEvery = time.Second
		dyn := func() {
			for _, x := range spec.HA {
				w.Replicate(x)
				w.Apply(x)
			}
		}
		w.OnIdle = dyn
		mgrHost := "h2"
		mgr := h.Start(mgrHost)
		h.InjectHealth()
		h.Tick(mgr) // become manager, converge once
		reqs := map[string]*c06Req{}
		var cur *c06Req
		ident := func(s *Switchover) string {
			return fmt.Sprintf("%s@%d/%s>%s", s.InitiatedBy, s.InitiatedAt.UnixNano(), s.From, s.To)
		}
		sync := func() { // learn about the pending request from the tree
			s := h.Switch()
			if s == nil {
				cur = nil
				return
			}
			id := ident(s)
			if reqs[id] == nil {
				reqs[id] = &c06Req{id: id, planned: s.MasterTransition != FailoverTransition, filedAt: w.Now()}
			}
			cur = reqs[id]
		}
		var lastWritable string
		w.OnApply = append(w.OnApply, func(ap *sim.Applied) {
			if !ap.Effect {
				return
			}
			if ap.Call.Kind == "sql" && ap.Call.Op == "SET_WRITABLE" {
				lastWritable = ap.Call.Target
			}
			if ap.Call.Kind != "zk" {
				return
			}
			rec := func(kind string) {
				var s Switchover
				if json.Unmarshal(ap.Call.ZKReq.Data, &s) != nil {
					return
				}
				id := ident(&s)
				if reqs[id] == nil {
					reqs[id] = &c06Req{id: id, planned: s.MasterTransition != FailoverTransition, filedAt: w.Now()}
				}
				reqs[id].terminals = append(reqs[id].terminals, kind)
				if kind == "succeeded" {
					mk := h.MasterKey()
					// (6) checked when the iteration ends (master key is written just before the record)
					if lastWritable != "" && mk != lastWritable {
						violate("6-success-implies-recorded-master-is-promoted-node", fmt.Sprintf("request %s recorded as succeeded, promoted node %s, recorded master %s", id, lastWritable, mk))
					}
					if srv := w.Servers[mk]; srv == nil || srv.ReadOnly || !srv.Up {
						violate("6-success-implies-recorded-master-writable", fmt.Sprintf("request %s recorded as succeeded but the recorded master %s is not writable", id, mk))
					}
				}
				if kind == "rejected" && s.RunCount > 0 && s.Result != nil && (strings.Contains(s.Result.Error, "no quorum") || strings.Contains(s.Result.Error, "no alive active replica")) {
					violate("4-approved-request-not-rejudged", fmt.Sprintf("request %s was approved before (run_count %d) and is now rejected for lack of quorum: %s", id, s.RunCount, s.Result.Error))
				}
			}
			switch {
			case ap.Call.Target == vns+"/last_switch" && (ap.Call.Op == "set" || ap.Call.Op == "create"):
				rec("succeeded")
			case ap.Call.Target == vns+"/last_rejected_switch" && (ap.Call.Op == "set" || ap.Call.Op == "create"):
				rec("rejected")
			}
		})
		light := false
		nFiled := 0
		for step, ev := range c.Hist {
			sync()
			before := h.Switch()
			beforeID := ""
			if before != nil {
				beforeID = ident(before)
			}
			np := len(w.Panics)
			lastBase := len(w.Trace)
			if step == len(c.Hist)-1 {
				defer func() { c06LastEventCalls = len(w.Trace) - lastBase }()
			}
			if c.OperatorFilesAt != nil && step == len(c.Hist)-1 {
				w.Plan[len(w.Trace)+*c.OperatorFilesAt] = sim.Deviation{Kind: sim.DevEnv}
				w.EnvHook = func(int) {
					if w.ZK.Exists(vns + "/switch") {
						return // create-if-absent: the key exists, the initiator is refused
					}
					s := Switchover{To: "h3", Cause: CauseManual, InitiatedBy: "operator", InitiatedAt: time.Now(), MasterTransition: SwitchoverTransition}
					w.ZK.Put(vns+"/switch", jsonStr(s))
					id := ident(&s)
					reqs[id] = &c06Req{id: id, planned: true, filedAt: w.Now()}
					r.Count("requests_filed_inside_a_manager_iteration")
				}
			}
			switch ev {
			case "tick":
				h.InjectHealth()
				if w.Procs[h.ID(mgr)].Crashed {
					break
				}
				parked := light && before != nil && before.MasterTransition == FailoverTransition
				expiredAtStart := before != nil && !before.InitiatedAt.IsZero() && time.Since(before.InitiatedAt) > time.Duration(c.Cfg.TimeoutS)*time.Second
				h.Tick(mgr)
				if mgr.state == stateManager && cur != nil && !parked {
					cur.ticks++
				}
				after := h.Switch()
				// (5) each failed attempt is counted
				if before != nil && after != nil && ident(after) == beforeID && after.Result != nil && !after.Result.Ok &&
					(before.Result == nil || !before.Result.FinishedAt.Equal(after.Result.FinishedAt)) {
					if after.RunCount != before.RunCount+1 {
						violate("5-each-failed-attempt-counted", fmt.Sprintf("request %s: run_count %d -> %d after a failed attempt", beforeID, before.RunCount, after.RunCount))
					}
				}
				// (2) bounded pending
				if after != nil && ident(after) == beforeID && cur != nil && mgr.state == stateManager && !parked {
					if cur.planned && c.Cfg.MaxAttempts > 0 && cur.ticks > c.Cfg.MaxAttempts+1 {
						violate("2-bounded-pending-attempt-limit", fmt.Sprintf("planned request %s still pending after %d manager iterations (limit %d)", beforeID, cur.ticks, c.Cfg.MaxAttempts))
					}
					if !after.InitiatedAt.IsZero() && expiredAtStart {
						violate("2-bounded-pending-timeout", fmt.Sprintf("request %s is %v old (timeout %ds) and still pending after a manager iteration that saw it expired", beforeID, time.Since(after.InitiatedAt).Truncate(time.Second), c.Cfg.TimeoutS))
					}
				}
			case "adv5":
				w.Advance(5 * time.Second)
				dyn()
			case "advT":
				w.Advance(time.Duration(c.Cfg.TimeoutS+1) * time.Second)
				dyn()
			case "fileTo3", "fileFrom1", "fileForced":
				w.Advance(time.Second) // request identity is (initiator, time): two filings never share an instant
				from, to, fo := "", "h3", false
				if ev == "fileFrom1" {
					from, to = h.MasterKey(), ""
				}
				if ev == "fileForced" {
					from, to, fo = h.MasterKey(), "", true
				}
				if to == h.MasterKey() {
					to = "h1"
				}
				rc := h.RunCLI("h3", func(a *App) int { return a.CliSwitch(from, to, 0, fo) })
				after := h.Switch()
				if before != nil {
					if after == nil || ident(after) != beforeID {
						violate("3-never-filed-over-pending", fmt.Sprintf("CLI %s replaced pending request %s", ev, beforeID))
					}
					if rc == 0 {
						violate("3-never-filed-over-pending", fmt.Sprintf("CLI %s reported success (rc 0) although request %s is pending", ev, beforeID))
					}
				} else if after != nil {
					nFiled++
				}
			case "workerToMaster":
				// an external worker asks for the master to be where it already is (the CLI refuses such a
				// request itself; nothing stops a worker writing the key directly)
				w.Advance(time.Second)
				if before == nil {
					s := Switchover{To: h.MasterKey(), Cause: CauseWorker, InitiatedBy: "worker", InitiatedAt: time.Now(), MasterTransition: SwitchoverTransition}
					w.ZK.Put(vns+"/switch", jsonStr(s))
					nFiled++
				}
			case "workerTo3", "workerNoTransition":
				// an external worker creates the key only if absent (ZooKeeper create semantics)
				w.Advance(time.Second)
				if before == nil {
					s := Switchover{To: "h3", Cause: CauseWorker, InitiatedBy: "worker", InitiatedAt: time.Now(), MasterTransition: SwitchoverTransition}
					if s.To == h.MasterKey() {
						s.To = "h1"
					}
					if ev == "workerNoTransition" {
						s.MasterTransition = ""
					}
					w.ZK.Put(vns+"/switch", jsonStr(s))
					nFiled++
				}
			case "abort":
				if before != nil {
					w.ZK.Del(vns + "/switch")
					reqs[beforeID].terminals = append(reqs[beforeID].terminals, "aborted")
				}
			case "stuckOn", "stuckOff":
				stuck = ev == "stuckOn"
				for _, x := range spec.HA {
					w.Servers[x].StuckSQL = stuck
				}
				if stuck {
					// the master commits one more transaction that replicas receive but cannot apply
					mk := h.MasterKey()
					if w.Servers[mk].Accepts(w) {
						w.Write(mk)
					}
					dyn()
				}
			case "dubiousOn", "dubiousOff":
				// an HA replica other than the manager's own host refuses connections with error 1040
				// (too many connections): the manager cannot tell whether it is alive
				for _, x := range []string{"h2", "h3"} {
					w.Servers[x].Dubious = ev == "dubiousOn" && x != mgrHost
				}
			case "failChangeOn":
				for _, x := range spec.HA {
					w.Servers[x].FailOps = map[string]uint16{"CHANGE_SOURCE": 1201}
				}
			case "failChangeOff":
				for _, x := range spec.HA {
					w.Servers[x].FailOps = nil
				}
			case "handover":
				if mgrHost == "h2" {
					mgrHost = "h3"
				} else {
					mgrHost = "h2"
				}
				if old := mgr; !w.Procs[h.ID(old)].Crashed {
					w.Crash(h.ID(old))
					for _, zc := range w.Procs[h.ID(old)].ZK {
						w.ZK.Expire(zc)
					}
				}
				mgr = h.Replace(mgrHost)
				h.Tick(mgr)
				if cur != nil && mgr.state == stateManager {
					cur.ticks++
				}
			case "h2dies":
				w.Servers["h2"].Crash(w)
			case "masterDies":
				w.Servers[h.MasterKey()].Crash(w)
			case "lightOn":
				if !w.ZK.Exists(vns + "/maintenance") {
					w.ZK.Put(vns+"/maintenance", jsonStr(Maintenance{InitiatedBy: "op", InitiatedAt: time.Now(), Mode: LightMode}))
					light = true
				}
			case "lightOff":
				if w.ZK.Exists(vns + "/maintenance") {
					w.ZK.Del(vns + "/maintenance")
					light = false
				}
			}
			if len(w.Panics) > np || len(w.Unknown) > 0 {
				violate("0-engine", fmt.Sprintf("panics=%v unknown=%v at step %d (%s)", w.Panics, w.Unknown, step, ev))
				return
			}
			// (1) at most one terminal outcome per request, exactly one once it is gone
			sync()
			for id, q := range reqs {
				if len(q.terminals) > 1 {
					violate("1-exactly-one-terminal-outcome", fmt.Sprintf("request %s has terminal outcomes %v", id, q.terminals))
				}
				if (cur == nil || cur.id != id) && len(q.terminals) == 0 {
					violate("1-exactly-one-terminal-outcome", fmt.Sprintf("request %s is gone without a terminal outcome (after step %d %s)", id, step, ev))
				}
			}
		}
		var rs []string
		for id, q := range reqs {
			rs = append(rs, fmt.Sprintf("%s:%d:%v", id[:strings.Index(id, "@")]+id[strings.Index(id, "/"):], q.ticks, q.terminals))
		}
		sort.Strings(rs)
		canon = h.Canon() + fmt.Sprintf("light=%v stuck=%v mgr=%s reqs=%v", light, stuck, mgrHost, rs)
		term := "none"
		if len(reqs) > 0 {
			var ts []string
			for _, q := range reqs {
				ts = append(ts, strings.Join(q.terminals, "+"))
			}
			sort.Strings(ts)
			term = strings.Join(ts, ",")
		}
		if report {
			r.Outcome("requests=" + fmt.Sprint(len(reqs)) + " terminals=" + term)
		}
		if r.Replay != nil {
			for _, l := range w.StmtLog {
				if strings.Contains(l, "switch") && !strings.Contains(l, "(no effect)") {
					r.Logf("%s", l)
				}
			}
		}
	})
	return canon
}

// vBFS explores event histories breadth-first up to depth; run returns the canonical state reached.
// Sharding: depth-2 prefixes are distributed over the workers.
func vBFS(r *vt.Run, tag string, alphabet []string, depth int, enabled func(hist []string, ev string) bool, run func(hist []string) string) {
	frontier := [][]string{nil}
	sub := 0
	for d := 1; d <= depth; d++ {
		var next [][]string
		for _, hist := range frontier {
			for _, ev := range alphabet {
				if enabled != nil && !enabled(hist, ev) {
					continue
				}
				nh := append(append([]string(nil), hist...), ev)
				if d == 2 && r.NShards > 1 {
					// assign the subtree to one shard (all shards explore depth 1 identically, so the
					// numbering agrees); round-robin spreads the expensive neighbouring subtrees
					sub++
					if sub%r.NShards != r.Shard {
						continue
					}
				}
				if r.Expired() {
					return
				}
				canon := run(nh)
				r.Transition()
				if d == 1 && r.Shard != 0 {
					r.R.Transitions--
					r.R.Validated--
				}
				if r.State(tag + canon) { // each search has its own visited set
					next = append(next, nh)
				}
			}
		}
		frontier = next
		r.Bound("depth_completed", d)
		r.Bound(fmt.Sprintf("frontier_after_depth_%d", d), len(next))
	}
}

// c06CallsOfLastEvent runs the history undisturbed and returns the number of calls of its last event.
func c06CallsOfLastEvent(r *vt.Run, c c06Case) int {
	c06LastEventCalls = 0
	c06Run(r, c, true)
	r.R.Evaluations--
	return c06LastEventCalls
}

var c06LastEventCalls int

func checkC06(r *vt.Run) {
	envIdx := 0
	var rc c06Case
	if r.ReplayInto(&rc) {
		c06Run(r, rc, true)
		return
	}
	cfgs := []c06Cfg{{MaxAttempts: 3, TimeoutS: 30}, {MaxAttempts: 1, TimeoutS: 1800}}
	depth := 4
	if r.Thorough() {
		cfgs = []c06Cfg{{MaxAttempts: 3, TimeoutS: 30}, {MaxAttempts: 1, TimeoutS: 1800}, {MaxAttempts: 0, TimeoutS: 30}, {MaxAttempts: 1, TimeoutS: 30}, {MaxAttempts: 0, TimeoutS: 1800}}
		depth = 6
	}
	r.Bound("depth", depth)
	r.Bound("configs", cfgs)
	for _, cfg := range cfgs {
		cfg := cfg
		enabled := func(hist []string, ev string) bool {
			// toggles only in the direction that changes something; at most one hand-over and one death per history
			cnt := func(e string) int {
				n := 0
				for _, x := range hist {
					if x == e {
						n++
					}
				}
				return n
			}
			last := func(on, off string) bool { // is the toggle on?
				for i := len(hist) - 1; i >= 0; i-- {
					if hist[i] == on {
						return true
					}
					if hist[i] == off {
						return false
					}
				}
				return false
			}
			switch ev {
			case "stuckOn":
				return !last("stuckOn", "stuckOff")
			case "stuckOff":
				return last("stuckOn", "stuckOff")
			case "failChangeOn":
				return !last("failChangeOn", "failChangeOff")
			case "failChangeOff":
				return last("failChangeOn", "failChangeOff")
			case "dubiousOn":
				return !last("dubiousOn", "dubiousOff")
			case "dubiousOff":
				return last("dubiousOn", "dubiousOff")
			case "lightOn":
				return !last("lightOn", "lightOff")
			case "lightOff":
				return last("lightOn", "lightOff")
			case "handover", "h2dies", "masterDies":
				return cnt(ev) == 0
			case "advT":
				return cnt(ev) < 2
			}
			return true
		}
		runner := func(hist []string) string {
			c := c06Case{Cfg: cfg, Hist: hist}
			r.Crumb(c)
			if len(hist) == 3 && hist[0] == "fileTo3" && hist[1] == "tick" {
				r.Sample(c)
			}
			return fmt.Sprintf("%+v|", cfg) + c06Run(r, c, true)
		}
		vBFS(r, "full|", c06Alphabet, depth, enabled, runner)
		// deeper search over the events that make attempts fail and requests retry
		focus := []string{"tick", "fileForced", "fileFrom1", "stuckOn", "h2dies", "abort", "advT", "masterDies"}
		vBFS(r, "focus|", focus, depth+1, enabled, runner)
		r.Bound("focus_alphabet_depth", depth+1)
		// from "a planned switchover failed after the freeze and was aborted": every node is still
		// read-only, no request is pending
		aborted := []string{"fileTo3", "failChangeOn", "tick", "abort", "failChangeOff"}
		vBFS(r, "after-aborted-attempt|", append([]string{"workerToMaster"}, c06Alphabet...), depth-1, enabled, func(hist []string) string {
			return runner(append(append([]string(nil), aborted...), hist...))
		})
		// without semi-sync a planned request is approved while another HA host is dubious (refuses
		// connections with error 1040): attempts that fail for that reason are attempts like any other
		if cfg.MaxAttempts > 0 {
			cfgNS := cfg
			cfgNS.NoSemiSync = true
			vBFS(r, "dubious|", []string{"tick", "fileFrom1", "fileTo3", "dubiousOn", "dubiousOff", "adv5", "abort", "h2dies"}, depth+1, enabled, func(hist []string) string {
				c := c06Case{Cfg: cfgNS, Hist: hist}
				r.Crumb(c)
				return fmt.Sprintf("%+v|", cfgNS) + c06Run(r, c, true)
			})
		}
		// long histories: a request whose attempts keep failing, one attempt every 5 s, until well past
		// the timeout (each attempt is younger than the timeout, the request is not)
		for _, kind := range []string{"fileForced", "fileFrom1", "workerNoTransition"} {
			hist := []string{kind, "stuckOn", "tick"}
			for i := 0; i < cfg.TimeoutS/5+4 && cfg.TimeoutS <= 60; i++ {
				hist = append(hist, "adv5", "tick")
			}
			if len(hist) > 3 {
				envIdx++
				if r.Mine(envIdx) {
					cc := c06Case{Cfg: cfg, Hist: hist}
					r.Crumb(cc)
					c06Run(r, cc, true)
					r.Count("long_failing_histories")
				}
			}
		}
		// attempt-limit histories (seeded/C06-h): with a timeout far away only the attempt limit can end
		// a planned request whose attempts keep failing - for every initiator (CLI, worker, a worker
		// that leaves master_transition empty) x every way the histories can make an attempt fail
		if cfg.MaxAttempts > 0 && cfg.TimeoutS >= 600 {
			for _, kind := range []string{"fileTo3", "fileFrom1", "workerTo3", "workerNoTransition"} {
				for _, fail := range []string{"stuckOn", "failChangeOn"} {
					hist := []string{kind, fail, "tick"}
					for i := 0; i < cfg.MaxAttempts+3; i++ {
						hist = append(hist, "adv5", "tick")
					}
					envIdx++
					if r.Mine(envIdx) {
						cc := c06Case{Cfg: cfg, Hist: hist}
						r.Crumb(cc)
						c06Run(r, cc, true)
						r.Count("attempt_limit_histories")
					}
				}
			}
		}
		// b=1 environment deviation: another initiator files a request at every call boundary of a
		// manager iteration that itself files or starts something
		for _, hist := range [][]string{{"masterDies", "tick"}, {"masterDies", "adv5", "tick"}, {"tick"}, {"fileFrom1", "tick"}, {"h2dies", "tick"}} {
			base := c06Case{Cfg: cfg, Hist: hist}
			n := c06CallsOfLastEvent(r, base)
			r.Bound(fmt.Sprintf("operator_files_at_every_call_of_%v", hist), n)
			for at := 0; at < n; at++ {
				envIdx++
				if !r.Mine(envIdx) {
					continue
				}
				at := at
				cc := base
				cc.OperatorFilesAt = &at
				r.Crumb(cc)
				c06Run(r, cc, true)
			}
		}
	}
}
