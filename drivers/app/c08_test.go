//go:build verif

package app

// C08 Lost coordination service: fence the node unless provably safe. The real stateLost() (entered
// through the real stateCandidate -> stateLost transition after the client's session was cut
// and the close timer fired) on every cell of the decision grid, over 1-3 lost-state iterations.

import (
	"fmt"
	"slices"
	"sort"
	"strings"
	"time"

	"github.com/yandex/mysync/internal/verif/sim"
	"github.com/yandex/mysync/internal/verif/vt"
)

func init() { verifChecks["C08"] = checkC08 }

// remote replica kinds
const (
	kStreaming = iota
	kStopped
	kWrongSource
	kSemiOff
	kRefusing
	kTimeout
)

var c08KindNames = []string{"streaming", "stopped", "wrong-source", "semisync-off", "refusing", "timing-out"}

type c08Case struct {
	Local     string `json:"local"` // master | replica | cascade | mysql-down
	Remotes   []int  `json:"remotes"`
	Async     bool   `json:"async_config"` // semi_sync: false
	WC        int    `json:"wait_count"`
	PluginOn  bool   `json:"master_plugin_on"`
	DisableRO bool   `json:"disable_set_readonly_on_lost"`
	FailRO    int    `json:"fail_ro_errno"`           // 0 ok, 1205, 1290 (other)
	Write     bool   `json:"client_write_before"`     // a client commit is attempted just before the loss (may get stuck on ACK)
	Excluded  bool   `json:"client_in_exclude_users"` // the committing client's user is in exclude_users (never KILLed)
	LongQuery bool   `json:"long_client_query"`
	SSFail    bool   `json:"local_semisync_status_fails"`
	Advances  []int  `json:"advance_s"` // seconds before lost iteration 2,3
	// TimeoutThenRefuse: remotes that time out in the first lost iteration merely refuse connections
	// from the second one on (the host came back, its mysqld did not): nothing is unreachable any more
	TimeoutThenRefuse bool `json:"timing_out_remotes_refuse_from_iteration_2,omitempty"`
	// FailCall >= 0: the state-changing statement number FailCall of the FIRST lost iteration fails once
	// (b = 1); only the state after the last iteration is judged: the node must end up fenced and no
	// commit may still hang
	FailCall *int `json:"failing_statement_of_first_lost_iteration,omitempty"`
	// InitRO: the local server's flags at the moment of the loss: 0 as the converged cluster has them,
	// 1 read_only=1 with super_read_only=0 (what keep_super_writable_on_critical_disk_usage or an
	// operator's SET GLOBAL read_only=1 leaves), 2 both set
	InitRO int `json:"local_initial_read_only,omitempty"`
}

func (c c08Case) String() string {
	if c.FailCall != nil {
		cc := c
		cc.FailCall = nil
		return cc.String() + fmt.Sprintf(" failing-statement=%d", *c.FailCall)
	}
	if c.TimeoutThenRefuse {
		cc := c
		cc.TimeoutThenRefuse = false
		return cc.String() + " timeout-then-refuse"
	}
	var rs []string
	for _, k := range c.Remotes {
		rs = append(rs, c08KindNames[k])
	}
	if c.InitRO != 0 {
		cc := c
		cc.InitRO = 0
		return cc.String() + fmt.Sprintf(" local-initial-read-only=%d", c.InitRO)
	}
	return fmt.Sprintf("local=%s remotes=[%s] async=%v wc=%d plugin=%v disable=%v failro=%d write=%v excluded-user=%v longq=%v ssfail=%v adv=%v",
		c.Local, strings.Join(rs, ","), c.Async, c.WC, c.PluginOn, c.DisableRO, c.FailRO, c.Write, c.Excluded, c.LongQuery, c.SSFail, c.Advances)
}

func c08Run(r *vt.Run, c c08Case) {
	r.Eval()
	n := len(c.Remotes) + 1
	var ha []string
	for i := 1; i <= n; i++ {
		ha = append(ha, fmt.Sprintf("h%d", i))
	}
	spec := Spec{HA: ha, Conf: map[string]string{"disable_set_readonly_on_lost": fmt.Sprint(c.DisableRO), "inactivation_delay": "30s",
		"rpl_semi_sync_master_wait_for_slave_count": "2", "db_lost_check_timeout": "1s"}}
	if c.Async {
		spec.Conf["semi_sync"] = "false"
	}
	local := "h1"
	switch c.Local {
	case "replica", "became-cascade":
		local = "h2"
	case "cascade":
		spec.Cascade = map[string]string{"c1": "h1"}
		local = "c1"
	}
	Bubble(r.T, spec, func(h *H) {
		h.BuildConverged()
		w := h.W
		w.LogStmts = r.Replay != nil
		lsrv := w.Servers[local]
		m := w.Servers["h1"]
		m.SSMaster, m.WaitCount = c.PluginOn && !c.Async, c.WC
		// someone else holds the manager lock, so the local instance idles as a candidate
		w.ZK.Put(vns+"/manager", `{"hostname":"elsewhere","pid":1}`)
		// remote conditions
		remoteHosts := []string{}
		for _, hst := range ha {
			if hst != local {
				remoteHosts = append(remoteHosts, hst)
			}
		}
		for i, k := range c.Remotes {
			if i >= len(remoteHosts) {
				break
			}
			s := w.Servers[remoteHosts[i]]
			if c.Async {
				s.SSSlave, s.SSLatched = false, false
			}
			switch k {
			case kStopped:
				s.IORunning, s.SQLRunning = false, false
			case kWrongSource:
				if s.HasSource {
					s.Source = "elsewhere"
				}
			case kSemiOff:
				s.SSSlave, s.SSLatched = false, false
			case kRefusing:
				s.Up = false
			case kTimeout:
				w.SetCut(local, s.Host, true)
			}
		}
		a := h.Start(local)
		h.Tick(a) // FirstRun -> Candidate (loads the host registry)
		if a.state != stateCandidate {
			r.Violate("C08/0-engine", fmt.Sprintf("setup: expected Candidate, got %s: %s", a.state, c), c)
			return
		}
		if c.Local == "became-cascade" {
			// while the daemon runs the operator turns the local host into a cascade replica
			// (`mysync host add h2 --stream-from h1`); the daemon sees it in its next iteration
			w.ZK.Del(vns + "/ha_nodes/" + local)
			w.ZK.Put(vns+"/cascade_nodes/"+local, `{"stream_from":"h1"}`)
			h.Tick(a)
			if a.state != stateCandidate {
				r.Violate("C08/0-engine", fmt.Sprintf("setup: expected Candidate after the re-registration, got %s: %s", a.state, c), c)
				return
			}
		}
		if c.Local == "mysql-down" {
			lsrv.Up = false
		}
		lsrv.FailRO = uint16(c.FailRO)
		lsrv.FailSSQuery = c.SSFail
		switch c.InitRO {
		case 1:
			lsrv.ReadOnly, lsrv.SuperRO = true, false
		case 2:
			lsrv.ReadOnly, lsrv.SuperRO = true, true
		}
		// lose the coordination service
		w.SetCut(local, "zk", true)
		w.ZK.SyncLinks()
		w.Advance(3500 * time.Millisecond)
		if a.dcs.IsConnected() {
			r.Violate("C08/0-engine", "setup: still connected after the session timeout: "+c.String(), c)
			return
		}
		var pendingTxn *sim.Txn
		if c.Write && lsrv.Up {
			pendingTxn = w.WriteAs(local, c.Excluded)
			if pendingTxn.Status != sim.TxnPending {
				pendingTxn = nil
			}
		}
		if c.LongQuery && lsrv.Up {
			lsrv.OpenLongQuery()
		}
		type rec struct {
			host, op string
			local    bool
		}
		var muts []rec
		w.OnApply = append(w.OnApply, func(ap *sim.Applied) {
			if ap.Call.Kind == "sql" && ap.Call.Mut && ap.Effect {
				muts = append(muts, rec{ap.Call.Target, ap.Call.Op, ap.Call.Target == local})
			}
			if ap.Call.Kind == "sql" && ap.Call.Target != local && ap.Call.Mut {
				muts = append(muts, rec{ap.Call.Target, "REMOTE:" + ap.Call.Op, false})
			}
		})
		// reference inputs
		available, unreachable := 0, 0
		for i, k := range c.Remotes {
			if i >= len(remoteHosts) {
				break
			}
			isMasterRemote := remoteHosts[i] == "h1" // probed host is itself a master: "is master" error
			switch k {
			case kStreaming:
				if !isMasterRemote && c.Local == "master" {
					available++
				}
			case kSemiOff:
				if !isMasterRemote && c.Local == "master" && c.Async {
					available++
				}
			case kTimeout:
				unreachable++
			}
		}
		var firstUnreach time.Duration = -1
		passes := len(c.Advances) + 1
		for p := 0; p < passes; p++ {
			if p > 0 {
				w.Advance(time.Duration(c.Advances[p-1]) * time.Second)
			}
			if p == 1 && c.TimeoutThenRefuse {
				for i, k := range c.Remotes {
					if i < len(remoteHosts) && k == kTimeout {
						w.SetCut(local, remoteHosts[i], false)
						w.Servers[remoteHosts[i]].Up = false
						unreachable--
					}
				}
			}
			if p == 0 && c.FailCall != nil {
				// find the FailCall-th state-changing statement as the iteration goes
				seen := 0
				w.Chooser = func(pend []*sim.Call) int {
					if pend[0].Kind == "sql" && pend[0].Mut {
						if seen == *c.FailCall {
							w.Plan[len(w.Trace)] = sim.Deviation{Kind: sim.DevErr}
						}
						seen++
					}
					return 0
				}
			}
			muts = muts[:0]
			roBefore := lsrv.ReadOnly && lsrv.SuperRO // fenced means both flags
			hadWaiters := lsrv.HasWaiters()
			hadBlockers := lsrv.BlocksReadOnly()
			tickStart := w.Now()
			h.Tick(a)
			w.Chooser = nil
			c08MutsOfFirst = max(c08MutsOfFirst, 0)
			if p == 0 {
				n := 0
				for _, q := range w.Trace {
					if q.Kind == "sql" && q.Mut && q.T >= tickStart {
						n++
					}
				}
				c08MutsOfFirst = n
			}
			where := fmt.Sprintf("lost iteration %d of %s", p, c)
			if c.FailCall != nil {
				if p == passes-1 {
					if !(lsrv.ReadOnly && lsrv.SuperRO) {
						r.Violate("C08/1-fences-when-not-safe/after-one-failed-statement", fmt.Sprintf("node not read-only after %d lost iterations: %s", passes, where), c)
					}
					if lsrv.HasWaiters() {
						r.Violate("C08/2-stuck-commits-cut-and-released/after-one-failed-statement", fmt.Sprintf("a commit still hangs on ACK after %d lost iterations: %s", passes, where), c)
					}
					r.Outcome("b1-final-state-judged")
				}
				continue
			}
			if len(w.Panics) > 0 || len(w.Unknown) > 0 {
				r.Violate("C08/0-engine", fmt.Sprintf("panics=%v unknown=%v in %s", w.Panics, w.Unknown, where), c)
				return
			}
			if a.state != stateLost {
				r.Violate("C08/6-stays-lost-while-disconnected", fmt.Sprintf("state %s after %s", a.state, where), c)
			}
			var ops []string
			for _, mu := range muts {
				ops = append(ops, mu.host+":"+mu.op)
			}
			// (never) promote / re-point / un-fence / touch remotes
			for _, mu := range muts {
				switch {
				case strings.HasPrefix(mu.op, "REMOTE:"):
					r.Violate("C08/5-never-touches-remote-nodes", fmt.Sprintf("state-changing statement %s sent to remote host %s in %s", mu.op, mu.host, where), c)
				case mu.op == "SET_WRITABLE" || mu.op == "OFFLINE_OFF" || mu.op == "CHANGE_SOURCE" || mu.op == "RESET_REPLICA_ALL" || strings.HasPrefix(mu.op, "START_") || strings.HasPrefix(mu.op, "STOP_"):
					r.Violate("C08/5-never-promotes-repoints-unfences", fmt.Sprintf("statement %s at %s in %s", mu.op, mu.host, where), c)
				}
			}
			// decision
			mustNotTouch := n == 1 || c.Local == "cascade" || c.Local == "became-cascade" || c.DisableRO
			liveGroup, open := false, false
			if c.Local == "master" && !mustNotTouch {
				if c.Async {
					liveGroup = available >= n-1
				} else if c.SSFail {
					liveGroup = false
				} else {
					liveGroup = available >= c.WC
					if !c.PluginOn {
						open = true // plugin off but the count variable is >= 1: the statement leaves it open
					}
				}
			}
			if open {
				r.Count("open_cells_plugin_off")
				r.Outcome("open")
				continue
			}
			if mustNotTouch || liveGroup {
				if len(muts) > 0 {
					r.Violate("C08/4-changes-nothing-when-safe-or-exempt", fmt.Sprintf("statements %v in %s", ops, where), c)
				}
				r.Outcome("untouched")
				continue
			}
			// must fence, possibly postponed
			if unreachable > 0 && firstUnreach < 0 {
				firstUnreach = tickStart
			}
			mayPostpone := unreachable > 0 && tickStart+time.Second-firstUnreach <= 30*time.Second
			if c.Local == "mysql-down" {
				r.Outcome("local-mysql-down")
				continue
			}
			fenced := lsrv.ReadOnly && lsrv.SuperRO
			if len(muts) == 0 && !roBefore {
				if mayPostpone {
					r.Count("postponed")
					r.Outcome("postponed")
					r.Nontrivial(c.String())
					continue
				}
				if c.FailRO != 0 {
					r.Outcome("cannot-fence")
					continue
				}
				clause := "C08/1-fences-when-not-safe"
				if unreachable > 0 {
					clause = "C08/3-postpones-at-most-inactivation-delay"
				}
				r.Violate(clause, fmt.Sprintf("node left writable and untouched (elapsed since first unreachable probe: %v) in %s", tickStart-firstUnreach, where), c)
				continue
			}
			if unreachable == 0 && len(muts) == 0 && roBefore {
				r.Outcome("already-fenced")
				continue
			}
			r.Nontrivial(c.String())
			if c.FailRO == 0 && !fenced {
				r.Violate("C08/1-fences-when-not-safe", fmt.Sprintf("node not read-only after %v in %s", ops, where), c)
			}
			if c.FailRO == 0 && fenced {
				r.Outcome("fenced")
			} else {
				r.Outcome("fence-attempted")
			}
			// stuck commits: sessions cut and semi-sync disabled iff commits were stuck
			var ssOff, offOn, kills int
			for _, mu := range muts {
				switch mu.op {
				case "SS_OFF":
					ssOff++
				case "OFFLINE_ON":
					offOn++
				case "KILL":
					kills++
				}
			}
			if ssOff > 0 && !hadWaiters {
				r.Violate("C08/2-semisync-disabled-only-for-stuck-commits", fmt.Sprintf("semi-sync disabled although no commit was waiting for ACK: %v in %s", ops, where), c)
			}
			if c.Local == "master" && hadWaiters && c.FailRO != 1290 && (ssOff == 0 || offOn == 0) {
				r.Violate("C08/2-stuck-commits-cut-and-released", fmt.Sprintf("commits were stuck on ACK but sessions were not cut / semi-sync not disabled: %v in %s", ops, where), c)
			}
			if kills > 0 && !hadBlockers && c.FailRO == 0 {
				r.Violate("C08/2-kill-only-when-blocked", fmt.Sprintf("client sessions killed although nothing blocked read-only: %v in %s", ops, where), c)
			}
			if pendingTxn != nil && pendingTxn.Status == sim.TxnAcked {
				r.Violate("C08/2-stuck-commit-never-acknowledged-by-fenced-master", fmt.Sprintf("a commit stuck on ACK was acknowledged to the client while fencing (sessions must be cut before the wait is released): %v in %s", ops, where), c)
			}
			if hadWaiters {
				r.Count("stuck_commit_cells")
			}
		}
		if r.Replay != nil {
			for _, l := range w.StmtLog {
				r.Logf("%s", l)
			}
		}
	})
}

var c08MutsOfFirst int

func checkC08(r *vt.Run) {
	var rc c08Case
	if r.ReplayInto(&rc) {
		c08Run(r, rc)
		return
	}
	maxN := 3
	if r.Thorough() {
		maxN = 4
	}
	r.Bound("max_ha_nodes", maxN)
	idx := 0
	run := func(c c08Case) {
		idx++
		if !r.Mine(idx) {
			return
		}
		if idx%4001 == 7 {
			r.Sample(c)
		}
		r.Crumb(c)
		c08Run(r, c)
	}
	multisets := func(n int, kinds []int) [][]int {
		var res [][]int
		var rec func(start int, cur []int)
		rec = func(start int, cur []int) {
			if len(cur) == n {
				res = append(res, append([]int(nil), cur...))
				return
			}
			for i := start; i < len(kinds); i++ {
				rec(i, append(cur, kinds[i]))
			}
		}
		rec(0, nil)
		return res
	}
	allKinds := []int{kStreaming, kStopped, kWrongSource, kSemiOff, kRefusing, kTimeout}
	// b = 1: one failing statement in the first lost iteration of a master with a commit stuck on ACK
	for _, base := range []c08Case{
		{Local: "master", Remotes: []int{kRefusing, kRefusing}, WC: 1, PluginOn: true, Write: true, Advances: []int{5, 5, 5}},
		{Local: "master", Remotes: []int{kStopped, kRefusing}, WC: 1, PluginOn: true, Write: true, LongQuery: true, Advances: []int{5, 5, 5}},
		{Local: "master", Remotes: []int{kRefusing, kRefusing}, WC: 1, PluginOn: true, Advances: []int{5, 5, 5}},
	} {
		c08MutsOfFirst = 0
		c08Run(r, base)
		r.R.Evaluations--
		n := c08MutsOfFirst
		for i := 0; i < n; i++ {
			i := i
			cc := base
			cc.FailCall = &i
			run(cc)
		}
	}
	advs := [][]int{nil, {5}, {31}, {5, 31}}
	type cfg struct {
		async  bool
		wc     int
		plugin bool
	}
	cfgs := []cfg{{false, 1, true}, {false, 2, true}, {false, 1, false}, {true, 1, false}}
	for n := 1; n <= maxN; n++ {
		for _, rem := range multisets(n-1, allKinds) {
			for _, cf := range cfgs {
				for _, dis := range []bool{false, true} {
					for _, fail := range []int{0, 1205, 1290} {
						for _, wr := range []int{0, 1, 2} {
							for _, lq := range []bool{false, true} {
								if dis && (fail != 0 || lq) {
									continue // exempt by configuration: one representative per write flag is enough
								}
								for _, adv := range advs {
									if r.Expired() {
										return
									}
									run(c08Case{Local: "master", Remotes: rem, Async: cf.async, WC: cf.wc, PluginOn: cf.plugin, DisableRO: dis, FailRO: fail, Write: wr > 0, Excluded: wr == 2, LongQuery: lq, Advances: adv})
									if len(adv) > 0 && adv[0] == 5 && slices.Contains(rem, kTimeout) && wr == 0 && !lq {
										run(c08Case{Local: "master", Remotes: rem, Async: cf.async, WC: cf.wc, PluginOn: cf.plugin, DisableRO: dis, FailRO: fail, Advances: adv, TimeoutThenRefuse: true})
									}
								}
							}
						}
					}
				}
			}
		}
	}
	// local semi-sync status query failing
	for _, rem := range multisets(2, []int{kStreaming, kStopped, kTimeout}) {
		for _, wr := range []bool{false, true} {
			run(c08Case{Local: "master", Remotes: rem, WC: 1, PluginOn: true, SSFail: true, Write: wr, Advances: []int{31}})
		}
	}
	// local replica / cascade-only host / local MySQL down
	for _, loc := range []string{"replica", "cascade", "mysql-down", "became-cascade"} {
		for n := 2; n <= maxN; n++ {
			for _, rem := range multisets(n-1, []int{kStreaming, kRefusing, kTimeout}) {
				for _, cf := range cfgs[:1:1] {
					for _, dis := range []bool{false, true} {
						for _, fail := range []int{0, 1205, 1290} {
							for _, adv := range advs {
								run(c08Case{Local: loc, Remotes: rem, Async: cf.async, WC: cf.wc, PluginOn: cf.plugin, DisableRO: dis, FailRO: fail, Advances: adv})
							}
						}
					}
				}
			}
		}
	}
	// the local server's own read_only / super_read_only flags at the moment of the loss
	for _, loc := range []string{"master", "replica"} {
		for _, rem := range multisets(2, allKinds) {
			for _, iro := range []int{1, 2} {
				for _, adv := range [][]int{nil, {5, 31}} {
					run(c08Case{Local: loc, Remotes: rem, WC: 1, PluginOn: true, Advances: adv, InitRO: iro})
				}
			}
		}
	}
	_ = sort.Ints
}
