//go:build verif

package dcs

import (
	"testing"

	"github.com/yandex/mysync/internal/verif/vt"
)

var verifChecks = map[string]vt.Check{}

func TestVerif(t *testing.T) { vt.Main(t, verifChecks) }
