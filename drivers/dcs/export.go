//go:build verif

package dcs

import (
	"fmt"
	"reflect"
	"sort"
	"strings"
	"time"
	"unsafe"

	"github.com/yandex/mysync/internal/verif/sim"
)

// VerifState renders the client-side state of a zkDCS canonically (lock cache, connected flag,
// pending close timer) for state hashing in the drivers.
func VerifState(d DCS) string {
	z, ok := d.(*zkDCS)
	if !ok {
		return "?"
	}
	var locks []string
	z.lockHeld.Range(func(k, v any) bool {
		locks = append(locks, fmt.Sprintf("%v@%s", k, time.Since(v.(time.Time)).Truncate(time.Second)))
		return true
	})
	sort.Strings(locks)
	z.connectedLock.Lock()
	defer z.connectedLock.Unlock()
	return fmt.Sprintf("connected=%v closeTimer=%v locks=%v", z.isConnected, z.closeTimer != nil, locks) + verifOtherFields(z)
}

// verifOtherFields renders every field of the client this file does not know by name (a cache a
// change may have added is state that decides futures: without it the searches would merge states
// that differ only in it and prune behaviours silently). Maps (the sync shim's Map has a Range
// method) are listed sorted, scalars printed, everything else reduced to nil-ness.
func verifOtherFields(z *zkDCS) string {
	known := map[string]bool{"logger": true, "config": true, "conn": true, "eventsChan": true, "lockHeld": true, "disconnectCallback": true,
		"isConnected": true, "connectedChans": true, "connectedLock": true, "closeTimer": true, "acl": true}
	v := reflect.ValueOf(z).Elem()
	t := v.Type()
	var out []string
	for i := 0; i < t.NumField(); i++ {
		name := t.Field(i).Name
		if known[name] {
			continue
		}
		f := reflect.NewAt(t.Field(i).Type, unsafe.Pointer(v.Field(i).UnsafeAddr()))
		out = append(out, name+"="+verifRender(f))
	}
	if len(out) == 0 {
		return ""
	}
	return " other{" + strings.Join(out, " ") + "}"
}

// VerifRenderField renders the value a pointer (obtained with reflect.NewAt) points to: maps sorted,
// scalars printed, everything else reduced to nil-ness. For the canonical states of other drivers.
func VerifRenderField(ptr reflect.Value) string { return verifRender(ptr) }

func verifRender(ptr reflect.Value) string {
	if m := ptr.MethodByName("Range"); m.IsValid() && m.Type().NumIn() == 1 {
		var items []string
		fn := reflect.MakeFunc(m.Type().In(0), func(args []reflect.Value) []reflect.Value {
			items = append(items, fmt.Sprintf("%v:%s", args[0].Interface(), verifScalar(reflect.ValueOf(args[1].Interface()))))
			return []reflect.Value{reflect.ValueOf(true)}
		})
		m.Call([]reflect.Value{fn})
		sort.Strings(items)
		return "[" + strings.Join(items, ",") + "]"
	}
	return verifScalar(ptr.Elem())
}

func verifScalar(v reflect.Value) string {
	if !v.IsValid() {
		return "nil"
	}
	switch v.Kind() {
	case reflect.Bool, reflect.Int, reflect.Int8, reflect.Int16, reflect.Int32, reflect.Int64, reflect.Uint, reflect.Uint8, reflect.Uint16, reflect.Uint32, reflect.Uint64, reflect.String, reflect.Float32, reflect.Float64:
		return fmt.Sprint(v.Interface())
	case reflect.Map:
		var items []string
		for _, k := range v.MapKeys() {
			items = append(items, fmt.Sprintf("%v:%s", k.Interface(), verifScalar(v.MapIndex(k))))
		}
		sort.Strings(items)
		return "{" + strings.Join(items, ",") + "}"
	case reflect.Slice:
		return fmt.Sprintf("len%d", v.Len())
	case reflect.Ptr, reflect.Interface, reflect.Chan, reflect.Func:
		if v.IsNil() {
			return "nil"
		}
		return "set"
	case reflect.Struct:
		if t, ok := v.Interface().(time.Time); ok {
			return time.Since(t).Truncate(time.Second).String()
		}
	}
	return v.Kind().String()
}

// VerifClient returns the fake client handle behind a zkDCS.
func VerifClient(d DCS) *sim.ZKClient {
	z, ok := d.(*zkDCS)
	if !ok || z.conn == nil {
		return nil
	}
	return z.conn.Sim()
}

// VerifLockCached reports whether the lock cache holds path.
func VerifLockCached(d DCS, path string) bool {
	z := d.(*zkDCS)
	_, ok := z.lockHeld.Load(z.buildFullPath(path))
	return ok
}
