//go:build verif

package dcs

import (
	"fmt"
	"sort"
	"time"

	"github.com/yandex/mysync/internal/verif/sim"
)

// VerifState renders the client-side state of a zkDCS canonically (lock cache, connected flag,
// pending close timer) for state hashing in the drivers.
func VerifState(d DCS) string {
	z, ok := d.(*zkDCS)
	if !ok {
		return "?"
	}
	var locks []string
	z.lockHeld.Range(func(k, v any) bool {
		locks = append(locks, fmt.Sprintf("%v@%s", k, time.Since(v.(time.Time)).Truncate(time.Second)))
		return true
	})
	sort.Strings(locks)
	z.connectedLock.Lock()
	defer z.connectedLock.Unlock()
	return fmt.Sprintf("connected=%v closeTimer=%v locks=%v", z.isConnected, z.closeTimer != nil, locks)
}

// VerifClient returns the fake client handle behind a zkDCS.
func VerifClient(d DCS) *sim.ZKClient {
	z, ok := d.(*zkDCS)
	if !ok || z.conn == nil {
		return nil
	}
	return z.conn.Sim()
}

// VerifLockCached reports whether the lock cache holds path.
func VerifLockCached(d DCS, path string) bool {
	z := d.(*zkDCS)
	_, ok := z.lockHeld.Load(z.buildFullPath(path))
	return ok
}
