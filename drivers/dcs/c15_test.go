//go:build verif

package dcs

// C15 Coordination data-plane contract. BFS over sequences of the data operations of real
// zkDCS clients (two clients A and B on real fake-ZooKeeper sessions) with connection drops,
// reconnects and session expiries in between; every result is compared with a reference tree
// written from the statement, and after every step the fake server's tree must equal it.

import (
	"context"
	"encoding/json"
	"errors"
	"fmt"
	"sort"
	"strings"
	"testing"
	"testing/synctest"
	"time"

	"github.com/rs/zerolog"

	"github.com/yandex/mysync/internal/verif/sim"
	"github.com/yandex/mysync/internal/verif/vt"
)

func init() { verifChecks["C15"] = checkC15 }

var vNopLog = zerolog.Nop()

func vBubble(t *testing.T, f func(w *sim.World)) {
	synctest.Test(t, func(t *testing.T) {
		w := sim.NewWorld()
		f(w)
		for _, p := range w.Procs {
			p.Crashed = true
		}
		for i := 0; i < 3; i++ {
			w.Settle()
			w.Advance(2 * time.Second)
		}
		w.Settle()
		sim.Cur = nil
	})
}

type vClient struct {
	id     string
	d      DCS
	cancel context.CancelFunc
}

func vNewClient(t *testing.T, w *sim.World, id, hostname string, ttl time.Duration) *vClient {
	if w.Proc(id) == nil {
		w.AddProc(id, hostname)
	}
	cfg := &ZookeeperConfig{Hostname: hostname, SessionTimeout: 3 * time.Second, LockHeldTTL: ttl, Namespace: "/test", Hosts: []string{id},
		BackoffInterval: 100 * time.Millisecond, BackoffRandFactor: 0, BackoffMultiplier: 1.5, BackoffMaxInterval: time.Second,
		BackoffMaxElapsedTime: 5 * time.Second, BackoffMaxRetries: 2, RandomHostProvider: DefaultRandomHostProviderConfig()}
	ctx, cancel := context.WithCancel(context.Background())
	d, err := NewZookeeper(ctx, cfg, &vNopLog)
	if err != nil {
		t.Fatalf("NewZookeeper: %v", err)
	}
	synctest.Wait()
	return &vClient{id, d, cancel}
}

// ---------------------------------------------------------------------------------------------
// reference tree

type refNode struct {
	val   string // JSON text
	owner string // "" plain, else client id + session generation
}

type refTree struct {
	nodes map[string]*refNode // normalised path ("" = namespace root)
	gen   map[string]int      // session generation per client
	conn  map[string]bool
}

func refNorm(k string) string {
	var parts []string
	for _, p := range strings.Split(k, "/") {
		if p != "" {
			parts = append(parts, p)
		}
	}
	return strings.Join(parts, "/")
}

func refParent(p string) (string, bool) {
	if p == "" {
		return "", false
	}
	if i := strings.LastIndex(p, "/"); i >= 0 {
		return p[:i], true
	}
	return "", true
}

func (t *refTree) children(p string) []string {
	var r []string
	pre := p + "/"
	if p == "" {
		pre = ""
	}
	for k := range t.nodes {
		if k != p && strings.HasPrefix(k, pre) && !strings.Contains(k[len(pre):], "/") && k != "" {
			r = append(r, k[len(pre):])
		}
	}
	sort.Strings(r)
	return r
}

func (t *refTree) dump() string {
	var ks []string
	for k := range t.nodes {
		ks = append(ks, k)
	}
	sort.Strings(ks)
	var b strings.Builder
	for _, k := range ks {
		n := t.nodes[k]
		o := ""
		if n.owner != "" {
			o = " eph=" + n.owner[:1]
		}
		fmt.Fprintf(&b, "/test/%s = %s%s\n", k, n.val, o)
	}
	return b.String()
}

// outcome classes of an operation
const (
	oOK        = "ok"
	oExists    = "exists"
	oNotFound  = "not-found"
	oMalformed = "malformed"
	oError     = "error" // any other error
)

func classify(err error) string {
	switch {
	case err == nil:
		return oOK
	case errors.Is(err, ErrExists):
		return oExists
	case errors.Is(err, ErrNotFound):
		return oNotFound
	case errors.Is(err, ErrMalformed):
		return oMalformed
	}
	return oError
}

type c15Case struct {
	Steps []string `json:"steps"`
	// TTL > 0: the clients are configured with lock_held_ttl (the lock cache answers without a round
	// trip for that long)
	TTL int `json:"lock_held_ttl_s,omitempty"`
}

var c15Keys = []string{"a", "a/b", "//a//b/", ""}

func c15Alphabet() []string {
	var a []string
	for _, k := range c15Keys {
		for _, op := range []string{"create", "createEph", "set", "setEph", "getInt", "getObj", "delete", "children", "tree"} {
			a = append(a, "A:"+op+":"+k)
		}
	}
	for _, op := range []string{"createEph", "setEph", "getInt", "delete", "set"} {
		a = append(a, "B:"+op+":a", "B:"+op+":a/b")
	}
	for _, c := range []string{"A", "B"} {
		a = append(a, c+":drop:", c+":reconnect:", c+":expire:")
	}
	// locks are ephemeral keys too: taken and released through the lock operations on a key of their own
	for _, c := range []string{"A", "B"} {
		a = append(a, c+":acq:L", c+":rel:L")
	}
	return a
}

func c15Run(r *vt.Run, c c15Case) (canon string) {
	r.Eval()
	bad := func(clause, msg string) {
		r.Violate("C15/"+clause, msg+fmt.Sprintf("; steps %v", c.Steps), c)
	}
	vBubble(r.T, func(w *sim.World) {
		w.ZK.Put("/test", "")
		ttl := time.Duration(c.TTL) * time.Second
		cl := map[string]*vClient{"A": vNewClient(r.T, w, "A", "hostA", ttl), "B": vNewClient(r.T, w, "B", "hostB", ttl)}
		ref := &refTree{nodes: map[string]*refNode{"": {val: ""}}, gen: map[string]int{"A": 1, "B": 1}, conn: map[string]bool{"A": true, "B": true}}
		expired := map[string]bool{}
		// (also after a reported violation: clients left open would end the bubble with a fatal error)
		defer func() {
			for _, c0 := range cl {
				c0.d.Close()
				c0.cancel()
			}
		}()
		for si, st := range c.Steps {
			f := strings.SplitN(st, ":", 3)
			who, op, key := f[0], f[1], f[2]
			c0 := cl[who]
			zc := VerifClient(c0.d)
			p := refNorm(key)
			switch op {
			case "drop":
				w.ZK.Cut(zc)
				w.Settle()
				ref.conn[who] = false
				continue
			case "expire":
				if !ref.conn[who] && !expired[who] {
					w.ZK.Expire(zc)
					expired[who] = true
					for k, n := range ref.nodes {
						if n.owner == fmt.Sprintf("%s%d", who, ref.gen[who]) {
							delete(ref.nodes, k)
						}
					}
				}
				continue
			case "reconnect":
				w.ZK.Heal(zc)
				w.Settle()
				if !ref.conn[who] {
					ref.conn[who] = true
					if expired[who] {
						ref.gen[who]++
						expired[who] = false
					}
				}
				continue
			}
			me := fmt.Sprintf("%s%d", who, ref.gen[who])
			var err error
			var gotChildren []string
			var gotTree any
			var gotInt int
			var gotObj map[string]any
			var gotLock bool
			w.Step(who, func() {
				switch op {
				case "acq":
					gotLock = c0.d.AcquireLock(key)
				case "rel":
					c0.d.ReleaseLock(key)
				case "create":
					err = c0.d.Create(key, 1)
				case "createEph":
					err = c0.d.CreateEphemeral(key, 1)
				case "set":
					err = c0.d.Set(key, map[string]int{"v": 2})
				case "setEph":
					err = c0.d.SetEphemeral(key, map[string]int{"v": 2})
				case "getInt":
					err = c0.d.Get(key, &gotInt)
				case "getObj":
					err = c0.d.Get(key, &gotObj)
				case "delete":
					err = c0.d.Delete(key)
				case "children":
					gotChildren, err = c0.d.GetChildren(key)
				case "tree":
					gotTree, err = c0.d.GetTree(key)
				}
			})
			got := classify(err)
			where := fmt.Sprintf("step %d %s", si, st)
			if op == "acq" || op == "rel" {
				n := ref.nodes[p]
				switch {
				case !ref.conn[who]:
					if gotLock {
						bad("10-lock-operations", fmt.Sprintf("%s reported the lock as held although the client has no connection", where))
					}
				case op == "acq":
					par, _ := refParent(p)
					// a lock is an ephemeral key created in place: it needs an existing plain parent
					want := n == nil && ref.nodes[par] != nil && ref.nodes[par].owner == "" || n != nil && n.owner == me
					if gotLock != want {
						bad("10-lock-operations", fmt.Sprintf("%s returned %v, want %v", where, gotLock, want))
					}
					if gotLock && n == nil {
						ref.nodes[p] = &refNode{"lock", me}
					}
				case op == "rel":
					if n != nil && n.owner == me {
						delete(ref.nodes, p) // released by its owner: the key is gone
					}
				}
			} else if !ref.conn[who] {
				// disconnected: no semantic answer may be given and nothing may change
				if got == oOK && op != "delete" || got == oExists {
					bad("9-disconnected-client-gets-errors", fmt.Sprintf("%s answered %s although the client has no connection", where, got))
				}
			} else {
				n := ref.nodes[p]
				par, hasPar := refParent(p)
				switch op {
				case "create", "createEph":
					want := oOK
					if n != nil {
						want = oExists
					} else if hasPar && ref.nodes[par] == nil {
						want = oError
					} else if hasPar && ref.nodes[par].owner != "" {
						want = oError
					}
					if (got == oExists) != (n != nil) {
						bad("1-create-exists-iff-key-exists", fmt.Sprintf("%s returned %s, key exists = %v", where, got, n != nil))
					} else if got != want {
						bad("1-create-outcome", fmt.Sprintf("%s returned %s, want %s", where, got, want))
					}
					if got == oOK {
						o := ""
						if op == "createEph" {
							o = me
						}
						ref.nodes[p] = &refNode{"1", o}
					}
				case "set", "setEph":
					want := oOK
					if n != nil && op == "setEph" && n.owner == "" {
						want = oError // a plain key is never silently turned into an ephemeral one
					}
					// missing parents are created (unless an ancestor is ephemeral: ZooKeeper forbids children)
					if n == nil {
						for q, ok := refParent(p); ok; q, ok = refParent(q) {
							if a := ref.nodes[q]; a != nil && a.owner != "" {
								want = oError
							}
						}
					}
					if got != want {
						bad("2-set-creates-parents-and-overwrites", fmt.Sprintf("%s returned %s (%v), want %s", where, got, err, want))
					}
					if got == oOK {
						if n == nil {
							for q, ok := refParent(p); ok; q, ok = refParent(q) {
								if ref.nodes[q] == nil {
									ref.nodes[q] = &refNode{"", ""}
								}
							}
							o := ""
							if op == "setEph" {
								o = me
							}
							ref.nodes[p] = &refNode{`{"v":2}`, o}
						} else {
							n.val = `{"v":2}`
						}
					}
				case "getInt", "getObj":
					want := oOK
					switch {
					case n == nil:
						want = oNotFound
					case op == "getInt" && n.val != "1":
						want = oMalformed
					case op == "getObj" && n.val != `{"v":2}`:
						want = oMalformed
					}
					if got != want {
						bad("3-get-missing-vs-unparsable", fmt.Sprintf("%s returned %s, want %s (stored %q)", where, got, want, func() string {
							if n == nil {
								return "<none>"
							}
							return n.val
						}()))
					}
				case "delete":
					want := oOK
					if n != nil && len(ref.children(p)) > 0 {
						want = oError
					}
					if got != want {
						bad("4-delete-idempotent", fmt.Sprintf("%s returned %s (%v), want %s", where, got, err, want))
					}
					if got == oOK && n != nil {
						delete(ref.nodes, p)
					}
				case "children":
					want := oOK
					if n == nil {
						want = oNotFound
					}
					if got != want {
						bad("5-children-of-missing-key-not-found", fmt.Sprintf("%s returned %s, want %s", where, got, want))
					} else if got == oOK && strings.Join(gotChildren, ",") != strings.Join(ref.children(p), ",") {
						bad("5-children-list", fmt.Sprintf("%s returned %v, want %v", where, gotChildren, ref.children(p)))
					}
				case "tree":
					if n != nil && got != oOK {
						bad("6-tree-of-existing-key", fmt.Sprintf("%s returned %s (%v)", where, got, err))
					}
					_ = gotTree
				}
			}
			// the server's tree must equal the reference after every step
			srv := w.ZK.Dump(func(path string, data []byte) (string, bool) {
				if path == "/" || path == "/test" && false {
					return "", false
				}
				if path == "/test/L" {
					return "lock", true
				}
				return string(data), true
			})
			want := ref.dump()
			if norm := strings.ReplaceAll(srv, "/test = ", "/test/ = "); norm != want {
				bad("7-tree-equals-reference", fmt.Sprintf("after %s the server tree is\n%swant\n%s", where, srv, want))
				return
			}
			if len(w.Panics) > 0 {
				bad("0-engine", fmt.Sprintf("panic %v", w.Panics))
				return
			}
		}
		canon = ref.dump() + fmt.Sprintf("conn=%v gen=%v exp=%v|%s|%s", ref.conn, ref.gen, expired, VerifState(cl["A"].d), VerifState(cl["B"].d))
	})
	return canon
}

func checkC15(r *vt.Run) {
	var rc c15Case
	if r.ReplayInto(&rc) {
		var ic c15iCase
		if r.ReplayInto(&ic) && ic.OpA != "" {
			c15iRun(r, ic)
		} else {
			c15Run(r, rc)
		}
		return
	}
	defer checkC15I(r)
	depth := 6
	if r.Thorough() {
		depth = 12
	}
	r.Bound("depth", depth)
	alpha := c15Alphabet()
	r.Bound("alphabet_size", len(alpha))
	// the lock operations with lock_held_ttl 30 s (the cache may answer): locks, drops, expiries and
	// reconnects of both clients
	lockAlpha := []string{"A:acq:L", "A:rel:L", "B:acq:L", "B:rel:L", "A:drop:", "A:reconnect:", "A:expire:", "B:drop:", "B:reconnect:", "B:expire:"}
	ld := depth + 1
	lf := [][]string{nil}
	for d := 1; d <= ld; d++ {
		var next [][]string
		for _, hist := range lf {
			for _, ev := range lockAlpha {
				nh := append(append([]string(nil), hist...), ev)
				if d == 2 && r.NShards > 1 {
					// (as below: every shard runs depth 1, the depth-2 subtrees are dealt out)
					sum := 0
					for _, e := range nh {
						for _, ch := range e {
							sum = (sum*31 + int(ch)) & 0xfffffff
						}
					}
					if sum%r.NShards != r.Shard {
						continue
					}
				}
				if r.Expired() {
					return
				}
				c := c15Case{Steps: nh, TTL: 30}
				r.Crumb(c)
				canon := "ttl30|" + c15Run(r, c)
				r.Transition()
				if d == 1 && r.Shard != 0 {
					r.R.Transitions--
					r.R.Validated--
				}
				if r.State(canon) {
					next = append(next, nh)
				}
			}
		}
		lf = next
		if len(next) == 0 {
			break
		}
	}
	r.Bound("lock_search_with_ttl_depth", ld)
	frontier := [][]string{nil}
	for d := 1; d <= depth; d++ {
		var next [][]string
		for _, hist := range frontier {
			for ai, ev := range alpha {
				nh := append(append([]string(nil), hist...), ev)
				if d == 2 && r.NShards > 1 {
					sum := 0
					for _, e := range nh {
						for _, ch := range e {
							sum = (sum*31 + int(ch)) & 0xfffffff
						}
					}
					if sum%r.NShards != r.Shard {
						continue
					}
				}
				if ai%32 == 0 && r.Expired() {
					return
				}
				c := c15Case{Steps: nh}
				r.Crumb(c)
				canon := c15Run(r, c)
				r.Transition()
				if d == 1 && r.Shard != 0 {
					r.R.Transitions--
					r.R.Validated--
				}
				if len(nh) == 3 && nh[0] == "A:createEph:a" && nh[1] == "A:drop:" {
					r.Sample(c)
				}
				if r.State(canon) {
					next = append(next, nh)
				}
			}
		}
		frontier = next
		r.Bound("depth_completed", d)
		if len(next) == 0 {
			r.Bound("fixpoint", "no new states: the whole reachable state space of this alphabet was explored (per shard subtree)")
			break
		}
	}
	_ = json.Marshal
}
