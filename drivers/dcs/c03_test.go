//go:build verif

package dcs

// C03 (part A) Exclusive manager lock: ALL interleavings, at ZooKeeper-request granularity, of
// the lock operations of 2-3 real zkDCS clients with connection drops, server-side session
// expiries, reconnects and time advances placed at arbitrary points. Stateless DFS by replay with
// visited-state pruning (state = tree, sessions, each client's script position, parked request and
// internal lock cache / connected flag / close timer).

import (
	"fmt"
	"strings"
	"time"

	"github.com/yandex/mysync/internal/verif/sim"
	"github.com/yandex/mysync/internal/verif/vt"
)

func init() { verifChecks["C03"] = checkC03 }

type c03Case struct {
	TTL      int        `json:"lock_held_ttl_s"`
	Scripts  [][]string `json:"scripts"` // per client: acq | rel
	SameHost bool       `json:"b_on_a_hostname"`
	SamePid  bool       `json:"restarted_a_reuses_pid"` // client C is A restarted on the same host with the same pid
	EnvFor   string     `json:"env_events_for"`
	Budget   int        `json:"env_event_budget"`
	Choices  []int      `json:"choices"`
	// Stall: the environment may also expire the session of EnvFor while that process is stalled (it
	// has seen no session event yet and finds out at its next request) - assumption A3 dropped
	Stall bool `json:"stall_expiry_allowed,omitempty"`
}

type c03Point struct {
	nOpt int
	hash string
}

type c03Client struct {
	name     string
	cl       *vClient
	pos      int
	last     int // 0 none, 1 true, 2 false
	loss     bool
	released bool
	done     bool
	// toldUnder: the session under which the last 'held' answer was given
	toldUnder int64
}

const c03Lock = "/test/manager"

func c03Run(r *vt.Run, c c03Case, report bool) (points []c03Point, choices []int) {
	r.Eval()
	stalledOnce := false
	violate := func(clause, detail string) {
		if report {
			cc := c
			cc.Choices = append([]int(nil), choices...)
			if stalledOnce {
				clause += "[after-a-stall]"
			}
			r.Violate("C03/"+clause, detail+fmt.Sprintf("; ttl=%ds scripts=%v sameHost=%v samePid=%v", c.TTL, c.Scripts, c.SameHost, c.SamePid), cc)
		}
	}
	vBubble(r.T, func(w *sim.World) {
		w.ZK.Put("/test", "")
		names := []string{"A", "B", "C"}[:len(c.Scripts)]
		cls := make([]*c03Client, len(names))
		for i, n := range names {
			host := "host" + n
			if n == "B" && c.SameHost {
				host = "hostA"
			}
			if n == "C" && c.SamePid {
				host = "hostA"
			}
			w.AddProc(n, host)
			if n == "C" && c.SamePid {
				w.SetPid("C", w.PidOf("A"))
			}
			cls[i] = &c03Client{name: n, cl: vNewClient(r.T, w, n, host, time.Duration(c.TTL)*time.Second)}
		}
		envLeft := c.Budget
		foreignDeleted := false
		foreignByAcquire := false
		var trace []string
		// scripts run concurrently, each in its own goroutine
		alldone := make(chan struct{})
		remaining := len(cls)
		for i, cc := range cls {
			i, cc := i, cc
			go func() {
				for _, op := range c.Scripts[i] {
					w.Yield(cc.name, "before-"+op) // the environment and the other clients may move between two API calls
					switch op {
					case "acq":
						ok := cc.cl.d.AcquireLock("manager")
						if ok {
							cc.last, cc.loss, cc.released = 1, false, false
							zc := VerifClient(cc.cl.d)
							cc.toldUnder = zc.Session
							if owner := w.ZK.Owner(c03Lock); owner != zc.Session {
								tag := "/plain"
								if c.SamePid || c.SameHost {
									tag = "/shared-hostname-or-pid"
								}
								if foreignDeleted {
									tag = "/after-a-release-deleted-anothers-lock"
								}
								if foreignByAcquire {
									tag = "/after-an-acquire-deleted-anothers-lock"
								}
								violate("2-true-only-under-current-session"+tag, fmt.Sprintf("%s was told it holds the lock while the lock znode is owned by session %#x (its own current session is %#x); trace %v", cc.name, owner, zc.Session, trace))
							}
						} else {
							cc.last = 2
						}
					case "rel":
						cc.cl.d.ReleaseLock("manager")
						cc.released = true
						cc.last = 0
					}
					cc.pos++
				}
				cc.done = true
				remaining--
				if remaining == 0 {
					close(alldone)
				}
			}()
		}
		envClient := func() *c03Client {
			for _, cc := range cls {
				if cc.name == c.EnvFor {
					return cc
				}
			}
			return nil
		}()
		step := 0
		w.Chooser = func(pend []*sim.Call) int {
			// (i) at most one process believes it holds the lock
			var holders []string
			for _, cc := range cls {
				// ... and the session under which it was told so has not expired at the server while the
				// process was stalled (it cannot have seen an event yet; being told again is clause ii)
				if cc.last == 1 && !cc.loss && !cc.released {
					if ss := w.ZK.Sessions[cc.toldUnder]; c.Stall && (ss == nil || !ss.Alive) {
						continue
					}
					holders = append(holders, cc.name)
				}
			}
			if len(holders) > 1 {
				tag := "/plain"
				if foreignDeleted {
					tag = "/after-a-release-deleted-anothers-lock"
				}
				if foreignByAcquire {
					tag = "/after-an-acquire-deleted-anothers-lock"
				}
				violate("1-at-most-one-holder"+tag, fmt.Sprintf("%v were all told they hold the lock and none has since seen a session event; trace %v", holders, trace))
			}
			// options: parked calls, then enabled environment events
			var envs []string
			if envLeft > 0 && envClient != nil {
				zc := VerifClient(envClient.cl.d)
				if zc.Connected {
					envs = append(envs, "drop")
					if c.Stall && !zc.Stalled && w.ZK.Sessions[zc.Session] != nil && w.ZK.Sessions[zc.Session].Alive {
						envs = append(envs, "stallExpire")
					}
				} else {
					envs = append(envs, "heal")
					if w.ZK.Sessions[zc.Session] != nil && w.ZK.Sessions[zc.Session].Alive {
						envs = append(envs, "expire")
					}
				}
				if c.TTL > 0 {
					envs = append(envs, "advTTL")
				}
			}
			nOpt := len(pend) + len(envs)
			// state hash
			var b strings.Builder
			b.WriteString(w.ZK.Dump(nil))
			for _, cc := range cls {
				zc := VerifClient(cc.cl.d)
				alive := w.ZK.Sessions[zc.Session] != nil && w.ZK.Sessions[zc.Session].Alive
				fmt.Fprintf(&b, "%s pos=%d last=%d loss=%v rel=%v conn=%v stalled=%v alive=%v sess=%d %s|", cc.name, cc.pos, cc.last, cc.loss, cc.released, zc.Connected, zc.Stalled, alive, zc.Session&0xff, VerifState(cc.cl.d))
			}
			for _, p := range pend {
				if p.ZKReq == nil {
					fmt.Fprintf(&b, "pend %s %s;", p.Proc, p.Op)
					continue
				}
				fmt.Fprintf(&b, "pend %s %s v%d;", p.Proc, p.ZKReq.Op, p.ZKReq.Version)
			}
			fmt.Fprintf(&b, "env=%d", envLeft)
			points = append(points, c03Point{nOpt, b.String()})
			ch := 0
			if step < len(c.Choices) {
				ch = c.Choices[step]
			}
			step++
			if ch >= nOpt {
				r.T.Fatalf("replay divergence: choice %d of %d options at step %d", ch, nOpt, step-1)
			}
			choices = append(choices, ch)
			if ch < len(pend) {
				p := pend[ch]
				if p.ZKReq == nil {
					trace = append(trace, fmt.Sprintf("%s:%s", p.Proc, p.Op))
					return ch
				}
				trace = append(trace, fmt.Sprintf("%s:%s", p.Proc, p.ZKReq.Op))
				// (iii) a release never deletes a lock owned by another process's session
				if p.ZKReq.Op == "delete" && p.ZKReq.Path == c03Lock {
					owner := w.ZK.Owner(c03Lock)
					if owner != 0 && owner != p.ZKReq.Client.Session && p.ZKReq.Client.Connected && (p.ZKReq.Version == -1 || p.ZKReq.Version == w.ZK.NodeVersion(c03Lock)) {
						foreignDeleted = true
						how := "delete-queued-across-session-change"
						if p.ZKReq.Version == -1 {
							how = "unconditional-delete"
						}
						// which API call sends the delete: a release (the recorded finding) or anything else
						for i, cc := range cls {
							if cc.name == p.Proc && cc.pos < len(c.Scripts[i]) && c.Scripts[i][cc.pos] != "rel" {
								how = "deleted-by-an-" + map[string]string{"acq": "acquire"}[c.Scripts[i][cc.pos]] + "/" + how
								foreignByAcquire = true
							}
						}
						violate("3-release-never-removes-anothers-lock/"+how, fmt.Sprintf("%s deletes the lock znode (version %d) which is owned by the session of %s; trace %v", p.Proc, p.ZKReq.Version, ownerName(w, owner), trace))
					}
				}
				return ch
			}
			ev := envs[ch-len(pend)]
			envLeft--
			trace = append(trace, "env:"+ev+":"+c.EnvFor)
			zc := VerifClient(envClient.cl.d)
			switch ev {
			case "drop":
				w.ZK.Cut(zc)
				envClient.loss = true
			case "heal":
				w.ZK.Heal(zc)
			case "expire":
				w.ZK.Expire(zc)
			case "stallExpire":
				w.ZK.StallExpire(zc)
				stalledOnce = true
			case "advTTL":
				time.Sleep(time.Duration(c.TTL)*time.Second + time.Second)
			}
			return -1
		}
		w.RunUntil(alldone)
		w.Chooser = nil
		out := ""
		for _, cc := range cls {
			out += fmt.Sprintf("%s=%d ", cc.name, cc.last)
		}
		if report {
			r.Outcome(out + "owner=" + ownerName(w, w.ZK.Owner(c03Lock)))
		}
		if r.Replay != nil {
			r.Logf("trace: %v", trace)
		}
		for _, cc := range cls {
			cc.cl.d.Close()
			cc.cl.cancel()
		}
	})
	return
}

func ownerName(w *sim.World, id int64) string {
	if id == 0 {
		return "nobody"
	}
	if s := w.ZK.Sessions[id]; s != nil {
		return s.Client.Proc
	}
	return fmt.Sprint(id)
}

func c03Explore(r *vt.Run, base c03Case, visited map[string]bool, prefix []int) {
	if r.Expired() {
		return
	}
	c := base
	c.Choices = prefix
	pts, choices := c03Run(r, c, true)
	r.Transition()
	for i := len(prefix); i < len(pts); i++ {
		if visited[pts[i].hash] {
			return // this state's continuations are (being) explored elsewhere
		}
		visited[pts[i].hash] = true
		r.State(fmt.Sprintf("%v|%v|%d|%s", base.Scripts, base.SameHost, base.TTL, pts[i].hash))
		for alt := 1; alt < pts[i].nOpt; alt++ {
			c03Explore(r, base, visited, append(append([]int(nil), choices[:i]...), alt))
		}
	}
}

func checkC03(r *vt.Run) {
	var rc c03Case
	if r.ReplayInto(&rc) {
		if len(rc.Scripts) > 0 { // otherwise the case belongs to part B (package app)
			c03Run(r, rc, true)
		}
		return
	}
	scripts := [][]string{{"acq"}, {"acq", "acq"}, {"acq", "rel"}, {"acq", "rel", "acq"}}
	var cases []c03Case
	ttls := []int{0, 30}
	budget := 3
	if r.Thorough() {
		ttls = []int{0, 5, 30}
		budget = 4
	}
	for _, ttl := range ttls {
		for _, sa := range scripts {
			for _, sb := range scripts {
				for _, same := range []bool{false, true} {
					if same && !r.Thorough() && len(sa)+len(sb) > 4 {
						continue
					}
					cases = append(cases, c03Case{TTL: ttl, Scripts: [][]string{sa, sb}, SameHost: same, EnvFor: "A", Budget: budget})
				}
			}
		}
		// the same pairs with stall-expiry allowed (assumption A3 dropped), smaller budget
		for _, sa := range [][]string{{"acq", "rel"}, {"acq", "acq"}, {"acq", "rel", "acq"}} {
			for _, sb := range [][]string{{"acq"}, {"acq", "acq"}} {
				cases = append(cases, c03Case{TTL: ttl, Scripts: [][]string{sa, sb}, EnvFor: "A", Budget: 2, Stall: true})
			}
		}
		// a restarted process that reuses hostname and pid of a still-live session
		cases = append(cases, c03Case{TTL: ttl, Scripts: [][]string{{"acq"}, {"acq", "acq"}, {"acq", "acq"}}, SamePid: true, EnvFor: "A", Budget: 2})
		if r.Thorough() {
			cases = append(cases, c03Case{TTL: ttl, Scripts: [][]string{{"acq", "rel"}, {"acq", "acq"}, {"acq", "rel"}}, EnvFor: "A", Budget: 3})
		}
	}
	r.Bound("cases", len(cases))
	r.Bound("env_event_budget", budget)
	for i, c := range cases {
		if !r.Mine(i) {
			continue
		}
		if i%5 == 0 {
			r.Sample(c)
		}
		r.Crumb(c)
		c03Explore(r, c, map[string]bool{}, nil)
	}
}
