//go:build verif

package dcs

// C15 part B: two clients, one data operation each on the same key, ALL interleavings at
// ZooKeeper-request granularity (the operations of the coordination layer are get-then-write
// sequences). Oracle: the operations that reported success, applied in SOME sequential order to the
// initial state by the reference semantics, all succeed there too and give exactly the final
// server state (an operation that reports an error must have had no effect). In particular an
// ephemeral write never reports success on a key that ends up plain.

import (
	"fmt"
	"strings"

	"github.com/yandex/mysync/internal/verif/sim"
	"github.com/yandex/mysync/internal/verif/vt"
)

type c15iCase struct {
	Init    string `json:"initial_key_state"` // missing | plain | ephA | ephB
	OpA     string `json:"op_a"`
	OpB     string `json:"op_b"`
	Choices []int  `json:"choices"`
	// Drops: how many of A's requests may be hit by a connection drop BEFORE they reach the server (the
	// client reconnects at once under the same session and re-sends); each drop is one more option at
	// a decision point
	Drops int `json:"connection_drop_budget_for_a"`
}

type c15iState struct {
	exists bool
	val    string
	owner  string // "" plain, "A"/"B" ephemeral of that client's session
}

func (s c15iState) String() string {
	if !s.exists {
		return "missing"
	}
	o := "plain"
	if s.owner != "" {
		o = "ephemeral of " + s.owner
	}
	return fmt.Sprintf("%s=%s", o, s.val)
}

var c15iOps = []string{"set", "setEph", "create", "createEph", "delete"}

// c15iRef applies one operation of client who by the reference semantics.
func c15iRef(s c15iState, who, op string) (c15iState, bool) {
	v := `"` + who + `"`
	switch op {
	case "create", "createEph":
		if s.exists {
			return s, false
		}
		o := ""
		if op == "createEph" {
			o = who
		}
		return c15iState{true, v, o}, true
	case "set":
		if !s.exists {
			return c15iState{true, v, ""}, true
		}
		s.val = v
		return s, true
	case "setEph":
		if !s.exists {
			return c15iState{true, v, who}, true
		}
		if s.owner == "" {
			return s, false // a plain key is never silently turned into an ephemeral one
		}
		s.val = v
		return s, true
	case "delete":
		return c15iState{}, true
	}
	panic(op)
}

const c15iKey = "/test/k"

func c15iRun(r *vt.Run, c c15iCase) (points []c03Point, choices []int) {
	r.Eval()
	vBubble(r.T, func(w *sim.World) {
		w.ZK.Put("/test", "")
		cl := map[string]*vClient{"A": vNewClient(r.T, w, "A", "hostA", 0), "B": vNewClient(r.T, w, "B", "hostB", 0)}
		init := c15iState{}
		switch c.Init {
		case "plain":
			w.Step("A", func() { _ = cl["A"].d.Set("k", "0") })
			init = c15iState{true, `"0"`, ""}
		case "ephA", "ephB":
			who := c.Init[3:]
			w.Step(who, func() { _ = cl[who].d.SetEphemeral("k", "0") })
			init = c15iState{true, `"0"`, who}
		}
		errs := map[string]error{}
		alldone := make(chan struct{})
		remaining := 2
		for _, who := range []string{"A", "B"} {
			who := who
			op := c.OpA
			if who == "B" {
				op = c.OpB
			}
			go func() {
				w.Yield(who, "before-"+op)
				d := cl[who].d
				var err error
				switch op {
				case "set":
					err = d.Set("k", who)
				case "setEph":
					err = d.SetEphemeral("k", who)
				case "create":
					err = d.Create("k", who)
				case "createEph":
					err = d.CreateEphemeral("k", who)
				case "delete":
					err = d.Delete("k")
				}
				errs[who] = err
				remaining--
				if remaining == 0 {
					close(alldone)
				}
			}()
		}
		var trace []string
		step := 0
		dropsLeft := c.Drops
		w.Chooser = func(pend []*sim.Call) int {
			var droppable []int // indexes of A's parked ZooKeeper requests
			if dropsLeft > 0 {
				for i, p := range pend {
					if p.Proc == "A" && p.ZKReq != nil {
						droppable = append(droppable, i)
					}
				}
			}
			var b strings.Builder
			b.WriteString(w.ZK.Dump(nil))
			for _, p := range pend {
				if p.ZKReq == nil {
					fmt.Fprintf(&b, "pend %s %s;", p.Proc, p.Op)
				} else {
					fmt.Fprintf(&b, "pend %s %s %s v%d;", p.Proc, p.ZKReq.Op, p.ZKReq.Path, p.ZKReq.Version)
				}
			}
			fmt.Fprintf(&b, "done=%d errs=%v drops=%d", 2-remaining, errs, dropsLeft)
			nOpt := len(pend) + len(droppable)
			points = append(points, c03Point{nOpt, b.String()})
			ch := 0
			if step < len(c.Choices) {
				ch = c.Choices[step]
			}
			step++
			if ch >= nOpt {
				r.T.Fatalf("replay divergence: choice %d of %d options at step %d", ch, nOpt, step-1)
			}
			choices = append(choices, ch)
			if ch >= len(pend) {
				// grant A's request, but the connection drops before it reaches the server
				i := droppable[ch-len(pend)]
				dropsLeft--
				w.Plan[len(w.Trace)] = sim.Deviation{Kind: sim.DevErr}
				trace = append(trace, fmt.Sprintf("A:%s(lost: connection dropped)", pend[i].ZKReq.Op))
				return i
			}
			p := pend[ch]
			if p.ZKReq != nil {
				trace = append(trace, fmt.Sprintf("%s:%s", p.Proc, p.ZKReq.Op))
			}
			return ch
		}
		w.RunUntil(alldone)
		w.Chooser = nil
		// observed final state
		obs := c15iState{}
		if d, ok := w.ZK.Get(c15iKey); ok {
			obs = c15iState{true, d, ""}
			if id := w.ZK.Owner(c15iKey); id != 0 {
				obs.owner = ownerName(w, id)
			}
		}
		var succ []string
		for _, who := range []string{"A", "B"} {
			if errs[who] == nil {
				succ = append(succ, who)
			}
		}
		opOf := map[string]string{"A": c.OpA, "B": c.OpB}
		orders := [][]string{succ}
		if len(succ) == 2 {
			orders = append(orders, []string{"B", "A"})
		}
		okSome := false
		var tried []string
		for _, ord := range orders {
			s, ok := init, true
			for _, who := range ord {
				var o bool
				s, o = c15iRef(s, who, opOf[who])
				ok = ok && o
			}
			tried = append(tried, fmt.Sprintf("%v -> %s (all succeed: %v)", ord, s, ok))
			if ok && s == obs {
				okSome = true
			}
		}
		r.Outcome(fmt.Sprintf("succeeded=%v", succ))
		if !okSome {
			cc := c
			cc.Choices = append([]int(nil), choices...)
			clause := "8-concurrent-operations-equal-a-sequential-order-of-the-successful-ones"
			if obs.exists && obs.owner == "" {
				for _, who := range succ {
					if strings.HasSuffix(opOf[who], "Eph") && obs.val == `"`+who+`"` {
						clause = "8-ephemeral-write-reported-success-on-a-plain-key"
					}
				}
			}
			r.Violate("C15/"+clause, fmt.Sprintf("initial %s; A:%s (%v) || B:%s (%v); requests in order %v; final state %s; sequential orders of the successful operations: %v",
				init, c.OpA, errs["A"], c.OpB, errs["B"], trace, obs, tried), cc)
		}
		if r.Replay != nil {
			r.Logf("trace: %v final: %s", trace, obs)
		}
		for _, c0 := range cl {
			c0.d.Close()
			c0.cancel()
		}
	})
	return
}

func c15iExplore(r *vt.Run, base c15iCase, visited map[string]bool, prefix []int) {
	c := base
	c.Choices = prefix
	pts, choices := c15iRun(r, c)
	r.Transition()
	for i := len(prefix); i < len(pts); i++ {
		if visited[pts[i].hash] {
			return
		}
		visited[pts[i].hash] = true
		r.State(fmt.Sprintf("c15i|%s|%s|%s|%d|%s", base.Init, base.OpA, base.OpB, base.Drops, pts[i].hash))
		for alt := 1; alt < pts[i].nOpt; alt++ {
			c15iExplore(r, base, visited, append(append([]int(nil), choices[:i]...), alt))
		}
	}
}

func checkC15I(r *vt.Run) {
	idx := 0
	for _, init := range []string{"missing", "plain", "ephA", "ephB"} {
		for _, a := range c15iOps {
			for _, b := range c15iOps {
				idx++
				if !r.Mine(idx) {
					continue
				}
				base := c15iCase{Init: init, OpA: a, OpB: b}
				r.Crumb(base)
				c15iExplore(r, base, map[string]bool{}, nil)
				base.Drops = 1
				r.Crumb(base)
				c15iExplore(r, base, map[string]bool{}, nil)
			}
		}
	}
	r.Bound("part_b_interleaved_pairs", idx)
}
