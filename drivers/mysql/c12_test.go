//go:build verif

package mysql

// C12 Quorum arithmetic: any failover quorum meets any acknowledging set.
// Exhaustive over list sizes n and configured counts w far beyond deployable clusters, on the
// real SwitchHelper; subset enumeration (every replica set of quorum size against every replica
// set of acknowledging size) for small n.

import (
	"fmt"
	"math/bits"

	"github.com/yandex/mysync/internal/config"
	"github.com/yandex/mysync/internal/verif/vt"
)

type c12Case struct {
	N        int  `json:"n"`
	W        int  `json:"w"`
	SemiSync bool `json:"semi_sync"`
	// Seq: calls [kind, n] made one after the other on ONE helper
	Seq [][2]int `json:"call_sequence_on_one_helper,omitempty"`
}

func init() { verifChecks["C12"] = checkC12 }

func c12List(n int) []string {
	l := make([]string, n)
	for i := range l {
		l[i] = fmt.Sprintf("h%d", i)
	}
	return l
}

func c12Run(r *vt.Run, c c12Case, subsetN int) {
	r.Eval()
	sh := NewSwitchHelper(&config.Config{RplSemiSyncMasterWaitForSlaveCount: c.W, SemiSync: c.SemiSync})
	list := c12List(c.N)
	replicas := c.N - 1
	if replicas < 0 {
		replicas = 0
	}
	req := sh.GetRequiredWaitSlaveCount(list)
	q := sh.GetFailoverQuorum(list)
	r.Outcome(fmt.Sprintf("req=%d,q-n=%d", min(req, 3), q-c.N))
	bad := func(clause, detail string) {
		r.Violate("C12/"+clause, fmt.Sprintf("n=%d w=%d semisync=%v: required=%d quorum=%d: %s", c.N, c.W, c.SemiSync, req, q, detail), c)
	}
	if req < 0 || req > replicas {
		bad("1-required-le-replicas", "required acknowledgements exceed the replicas in the list")
	}
	if (req == 0) != (replicas == 0 || c.W == 0) {
		bad("2-required-zero-iff", "required count is zero although the list has a replica and the configured count is positive (or vice versa)")
	}
	if q < 1 {
		bad("3-quorum-ge-1", "failover quorum below one")
	}
	if q+req <= replicas {
		bad("4-quorum-plus-required", "quorum + required does not exceed the number of replicas")
	}
	if req > 0 {
		r.Nontrivial(fmt.Sprintf("%d/%d", c.N, c.W))
	}
	// decision function on every count of permissible replicas
	for p := 0; p <= c.N+1; p++ {
		err := sh.CheckFailoverQuorum(list, p)
		var want bool // want error
		if c.SemiSync {
			want = p < q
		} else {
			want = p == 0
		}
		if (err != nil) != want {
			bad("5-check-decision", fmt.Sprintf("CheckFailoverQuorum(permissible=%d) returned %v", p, err))
		}
	}
	// subsets: every replica set able to fail over meets every set able to acknowledge
	if c.SemiSync && req > 0 && replicas <= subsetN {
		full := uint32(1)<<uint(replicas) - 1
		pairs := 0
		for s := uint32(0); s <= full; s++ {
			if bits.OnesCount32(s) < q {
				continue
			}
			if sh.CheckFailoverQuorum(list, bits.OnesCount32(s)) != nil {
				continue
			}
			for a := uint32(0); a <= full; a++ {
				if bits.OnesCount32(a) < req {
					continue
				}
				pairs++
				if s&a == 0 {
					bad("6-intersection", fmt.Sprintf("failover set %b and acknowledging set %b are disjoint", s, a))
					s = full
					break
				}
			}
		}
		r.Add("subset_pairs", pairs)
	}
}

// c12Seq: a sequence of calls on ONE helper; every answer must be the one a fresh helper gives.
func c12Seq(r *vt.Run, c c12Case) {
	cfg := &config.Config{RplSemiSyncMasterWaitForSlaveCount: c.W, SemiSync: c.SemiSync}
	answer := func(sh ISwitchHelper, o [2]int) string {
		l := c12List(o[1])
		q := max(o[1]-min(o[1]/2, c.W), 1)
		switch o[0] {
		case 0:
			return fmt.Sprint(sh.GetRequiredWaitSlaveCount(l))
		case 1:
			return fmt.Sprint(sh.GetFailoverQuorum(l))
		case 2:
			return fmt.Sprint(sh.CheckFailoverQuorum(l, q-1) != nil)
		}
		return fmt.Sprint(sh.CheckFailoverQuorum(l, q) != nil)
	}
	sh := NewSwitchHelper(cfg)
	for k, o := range c.Seq {
		want := answer(NewSwitchHelper(cfg), o)
		if got := answer(sh, o); got != want {
			r.Violate("C12/7-answers-do-not-depend-on-earlier-calls", fmt.Sprintf("w=%d semisync=%v: call %d of the sequence %v ([kind n]; kinds: 0 required, 1 quorum, 2 check(quorum-1) fails, 3 check(quorum) fails) on one helper answered %s, a fresh helper answers %s",
				c.W, c.SemiSync, k, c.Seq, got, want), c)
		}
	}
}

func checkC12(r *vt.Run) {
	var rc c12Case
	if r.ReplayInto(&rc) {
		if len(rc.Seq) > 0 {
			c12Seq(r, rc)
			return
		}
		c12Run(r, rc, 12)
		return
	}
	maxN, subsetN := 128, 9
	if r.Thorough() {
		maxN, subsetN = 512, 12
	}
	r.Bound("max_n", maxN)
	r.Bound("max_w", maxN)
	r.Bound("subset_enumeration_up_to_replicas", subsetN)
	i := 0
	for n := 0; n <= maxN; n++ {
		for w := 0; w <= maxN; w++ {
			for _, ss := range []bool{true, false} {
				i++
				if !r.Mine(i) {
					continue
				}
				c := c12Case{N: n, W: w, SemiSync: ss}
				if n == 5 && w == 2 && ss {
					r.Sample(c)
				}
				c12Run(r, c, subsetN)
			}
		}
	}
	r.Sample(c12Case{N: 3, W: 1, SemiSync: true})
	// the daemon keeps ONE helper for its lifetime and asks it about different lists over time: every
	// sequence of up to 3 calls of {required(n), quorum(n), check(n, quorum-1), check(n, quorum)} over
	// n = 0..8 on one helper must give the answers a fresh helper gives
	var ops [][2]int
	for n := 0; n <= 8; n++ {
		for k := 0; k < 4; k++ {
			ops = append(ops, [2]int{k, n})
		}
	}
	seqs := 0
	for w := 0; w <= 4; w++ {
		for _, ss := range []bool{true, false} {
			for a := range ops {
				i++
				if !r.Mine(i) {
					continue
				}
				for b := range ops {
					for c := range ops {
						c12Seq(r, c12Case{N: ops[c][1], W: w, SemiSync: ss, Seq: [][2]int{ops[a], ops[b], ops[c]}})
						seqs++
					}
				}
			}
		}
	}
	r.Add("call_sequences_on_one_helper", seqs)
	r.Bound("call_sequence_length", 3)
}
