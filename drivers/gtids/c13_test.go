//go:build verif

package gtids

// C13 (GTID half): IsSlaveBehindOrEqual / IsSlaveAhead / IsSplitBrained / GTIDDiff against an
// independent bitset reference, for ALL pairs of sets over a small universe (uuids x optional tag
// x transaction numbers), each set parsed by the real ParseGtidSet from several textual
// spellings, plus a deterministic family of wide-gap sets.

import (
	"fmt"
	"sort"
	"strings"

	"github.com/google/uuid"

	"github.com/yandex/mysync/internal/verif/vt"
)

func init() { verifChecks["C13"] = checkC13 }

var c13UUIDs = []string{
	"11111111-1111-1111-1111-111111111111",
	"22222222-2222-2222-2222-222222222222",
	"33333333-3333-3333-3333-333333333333",
}

// universe element: (uuid index, tag, gno)
type c13Elem struct {
	u   int
	tag string
	gno int64
}

type c13Universe struct {
	Name  string
	elems []c13Elem
}

func c13Univ(name string, uu int, tags []string, gnos []int64) c13Universe {
	var e []c13Elem
	for u := 0; u < uu; u++ {
		for _, t := range tags {
			for _, g := range gnos {
				e = append(e, c13Elem{u, t, g})
			}
		}
	}
	return c13Universe{name, e}
}

// render mask as MySQL text. style 0: canonical ranges, uuids ascending; 1: uuids descending;
// 2: every transaction as its own interval; 3: uuid repeated per interval (u:1,u:2) with newlines.
func (un c13Universe) render(mask uint32, style int) string {
	type key struct {
		u   int
		tag string
	}
	groups := map[key][]int64{}
	for i, e := range un.elems {
		if mask&(1<<uint(i)) != 0 {
			groups[key{e.u, e.tag}] = append(groups[key{e.u, e.tag}], e.gno)
		}
	}
	var us []int
	seen := map[int]bool{}
	for k := range groups {
		if !seen[k.u] {
			seen[k.u] = true
			us = append(us, k.u)
		}
	}
	sort.Ints(us)
	if style == 1 {
		sort.Sort(sort.Reverse(sort.IntSlice(us)))
	}
	ivs := func(g []int64) []string {
		sort.Slice(g, func(i, j int) bool { return g[i] < g[j] })
		var r []string
		for i := 0; i < len(g); {
			j := i
			if style != 2 && style != 3 {
				for j+1 < len(g) && g[j+1] == g[j]+1 {
					j++
				}
			}
			if i == j {
				r = append(r, fmt.Sprint(g[i]))
			} else {
				r = append(r, fmt.Sprintf("%d-%d", g[i], g[j]))
			}
			i = j + 1
		}
		return r
	}
	var parts []string
	for _, u := range us {
		var tags []string
		for k := range groups {
			if k.u == u {
				tags = append(tags, k.tag)
			}
		}
		sort.Strings(tags) // empty tag first
		if style == 3 {
			for _, t := range tags {
				for _, iv := range ivs(groups[key{u, t}]) {
					s := c13UUIDs[u]
					if t != "" {
						s += ":" + t
					}
					parts = append(parts, s+":"+iv)
				}
			}
			continue
		}
		s := c13UUIDs[u]
		for _, t := range tags {
			if t != "" {
				s += ":" + t
			}
			s += ":" + strings.Join(ivs(groups[key{u, t}]), ":")
		}
		parts = append(parts, s)
	}
	if style == 3 {
		return strings.Join(parts, ",\n")
	}
	return strings.Join(parts, ",")
}

// parseRef parses canonical text (as produced by the GTID library's String) into a mask.
func (un c13Universe) parseRef(s string) (uint32, error) {
	var mask uint32
	if strings.TrimSpace(s) == "" {
		return 0, nil
	}
	for _, part := range strings.Split(s, ",") {
		f := strings.Split(strings.TrimSpace(part), ":")
		ui := -1
		for i, u := range c13UUIDs {
			if strings.EqualFold(u, f[0]) {
				ui = i
			}
		}
		if ui < 0 {
			return 0, fmt.Errorf("unknown uuid %q", f[0])
		}
		tag := ""
		for _, x := range f[1:] {
			var a, b int64
			if n, _ := fmt.Sscanf(x, "%d-%d", &a, &b); n == 2 {
			} else if n, _ := fmt.Sscanf(x, "%d", &a); n == 1 {
				b = a
			} else {
				tag = x
				continue
			}
			for g := a; g <= b; g++ {
				found := false
				for i, e := range un.elems {
					if e.u == ui && e.tag == tag && e.gno == g {
						mask |= 1 << uint(i)
						found = true
					}
				}
				if !found {
					return 0, fmt.Errorf("element %s:%s:%d outside the universe", f[0], tag, g)
				}
			}
		}
	}
	return mask, nil
}

// hasForeign reports whether mask has an element whose uuid index differs from u.
func (un c13Universe) hasForeign(mask uint32, u int) bool {
	for i, e := range un.elems {
		if mask&(1<<uint(i)) != 0 && e.u != u {
			return true
		}
	}
	return false
}

type c13Case struct {
	Universe string `json:"universe"`
	Slave    string `json:"slave"`
	Master   string `json:"master"`
	MUUID    string `json:"master_uuid"`
}

func c13DiffExpect(un c13Universe, s, m uint32) string {
	sm := un.render(s&^m, 0)
	ms := un.render(m&^s, 0)
	switch {
	case sm == "" && ms == "":
		return "replica gtid equal source"
	case ms != "" && sm == "":
		return "source ahead on: " + ms
	case ms != "" && sm != "":
		return "split brain! source ahead on: " + ms + "; replica ahead on: " + sm
	}
	return "replica ahead on: " + sm
}

func c13Pair(r *vt.Run, un c13Universe, sm, mm uint32, sSet, mSet GTIDSet, sText, mText string) {
	r.Eval()
	c := func(mu string) c13Case { return c13Case{un.Name, sText, mText, mu} }
	subset := sm&^mm == 0
	if got := IsSlaveBehindOrEqual(sSet, mSet); got != subset {
		r.Violate("C13/1-behind-or-equal-iff-subset", fmt.Sprintf("IsSlaveBehindOrEqual(%q, %q) = %v, subset = %v", sText, mText, got, subset), c(""))
	}
	if got := IsSlaveAhead(sSet, mSet); got != !subset {
		r.Violate("C13/2-ahead-is-negation", fmt.Sprintf("IsSlaveAhead(%q, %q) = %v, subset = %v", sText, mText, got, subset), c(""))
	}
	diff, err := GTIDDiff(sSet, mSet)
	want := c13DiffExpect(un, sm, mm)
	if err != nil || diff != want {
		r.Violate("C13/3-diff-names-both-differences", fmt.Sprintf("GTIDDiff(%q, %q) = %q, %v; want %q", sText, mText, diff, err, want), c(""))
	}
	kind := "equal"
	switch {
	case sm == mm:
	case subset:
		kind = "behind"
	case mm&^sm == 0:
		kind = "ahead"
	default:
		kind = "incomparable"
	}
	r.Outcome(kind)
	if kind == "incomparable" {
		r.Nontrivial(fmt.Sprintf("%s/%d/%d", un.Name, sm, mm))
	}
	for ui := 0; ui <= len(c13UUIDs); ui++ {
		var mu uuid.UUID
		mus := "99999999-9999-9999-9999-999999999999"
		if ui < len(c13UUIDs) {
			mus = c13UUIDs[ui]
		}
		mu = uuid.MustParse(mus)
		got := IsSplitBrained(sSet, mSet, mu)
		if subset && got {
			r.Violate("C13/4-subset-never-splitbrained", fmt.Sprintf("IsSplitBrained(%q, %q, %s) = true although the replica's set is a subset", sText, mText, mus), c(mus))
		}
		if !subset && un.hasForeign(sm&^mm, ui) && !got {
			r.Violate("C13/5-foreign-extra-always-splitbrained", fmt.Sprintf("IsSplitBrained(%q, %q, %s) = false although the replica holds a transaction the master lacks that did not originate on it", sText, mText, mus), c(mus))
		}
	}
}

func checkC13(r *vt.Run) {
	var rc c13Case
	universes := []c13Universe{
		c13Univ("2uuid-x-1..5", 2, []string{""}, []int64{1, 2, 3, 4, 5}),
		c13Univ("widegap-2uuid", 2, []string{""}, []int64{1, 2, 1 << 31, 1<<31 + 1, 1 << 62}),
	}
	if r.Thorough() || r.Replay != nil {
		universes = append(universes,
			c13Univ("3uuid-x-1..4", 3, []string{""}, []int64{1, 2, 3, 4}),
			c13Univ("2uuid-x-tag-x-1..3", 2, []string{"", "tag_a"}, []int64{1, 2, 3}),
			c13Univ("2uuid-x-1..6", 2, []string{""}, []int64{1, 2, 3, 4, 5, 6}),
		)
	}
	if !r.Thorough() || r.Replay != nil { // (a replay must know the universes of both tiers)
		universes = append(universes, c13Univ("2uuid-x-tag-x-1..2", 2, []string{"", "tag_a"}, []int64{1, 2}),
			c13Univ("3uuid-x-1..3", 3, []string{""}, []int64{1, 2, 3}))
	}
	if r.ReplayInto(&rc) {
		for _, un := range universes {
			if un.Name != rc.Universe {
				continue
			}
			s := ParseGtidSet(rc.Slave)
			m := ParseGtidSet(rc.Master)
			sm, _ := un.parseRef(s.String())
			mm, _ := un.parseRef(m.String())
			c13Pair(r, un, sm, mm, s, m, rc.Slave, rc.Master)
		}
		return
	}
	var names []string
	for _, un := range universes {
		names = append(names, fmt.Sprintf("%s(%d elements)", un.Name, len(un.elems)))
	}
	r.Bound("universes", names)
	for _, un := range universes {
		n := uint32(1) << uint(len(un.elems))
		sets := make([]GTIDSet, n)
		texts := make([]string, n)
		// parse phase: every spelling of every set parses to the same set
		for m := uint32(0); m < n; m++ {
			for style := 0; style < 4; style++ {
				txt := un.render(m, style)
				var g GTIDSet
				func() {
					defer func() {
						if e := recover(); e != nil {
							r.Violate("C13/0-parse", fmt.Sprintf("ParseGtidSet(%q) panicked: %v", txt, e), c13Case{un.Name, txt, "", ""})
						}
					}()
					g = ParseGtidSet(txt)
				}()
				if g == nil {
					continue
				}
				back, err := un.parseRef(g.String())
				if err != nil || back != m {
					r.Violate("C13/0-parse", fmt.Sprintf("ParseGtidSet(%q) yields %q (reference mask %b, want %b, %v)", txt, g.String(), back, m, err), c13Case{un.Name, txt, "", ""})
				}
				if style == 0 {
					sets[m], texts[m] = g, txt
				}
			}
			r.Add("spellings_parsed", 4)
		}
		// pair phase
		i := 0
		for s := uint32(0); s < n; s++ {
			i++
			if !r.Mine(i) {
				continue
			}
			if r.Expired() {
				return
			}
			for m := uint32(0); m < n; m++ {
				c13Pair(r, un, s, m, sets[s], sets[m], texts[s], texts[m])
			}
		}
		// the functions must not have mutated their arguments
		for m := uint32(0); m < n; m++ {
			if back, err := un.parseRef(sets[m].String()); err != nil || back != m {
				r.Violate("C13/6-arguments-not-mutated", fmt.Sprintf("set %q changed to %q during comparisons", texts[m], sets[m].String()), c13Case{un.Name, texts[m], "", ""})
			}
		}
		r.Sample(c13Case{un.Name, un.render(n/3, 0), un.render(n/5*2+1, 0), c13UUIDs[0]})
	}
}
